//go:build verif

package main

// Role B harness of the speaker family (C05, C09): replays TLC-generated walks of
// spec/SpeakerMC.tla on the REAL speaker controller (newController: real bgpController with a
// recording session manager installed through the package variable newBGP, real layer2Controller
// with the real layer2.Announce), driven through the real ServiceReconciler, NodeReconciler and
// ConfigReconciler (real config parsing).  The harness is the API server / informer cache (the
// cluster state, rendered as Kubernetes objects on every read), the three work queues and the
// memberlist.  It drives, projects and logs; it judges nothing.

import (
	"context"
	"encoding/json"
	"fmt"
	"math/rand"
	"net"
	"os"
	"regexp"
	"sort"
	"strconv"
	"strings"
	"sync"
	"testing"
	"time"

	"github.com/go-kit/log"
	metallbv1beta1 "go.universe.tf/metallb/api/v1beta1"
	metallbv1beta2 "go.universe.tf/metallb/api/v1beta2"
	"go.universe.tf/metallb/internal/bgp"
	"go.universe.tf/metallb/internal/bgp/community"
	"go.universe.tf/metallb/internal/config"
	"go.universe.tf/metallb/internal/k8s/controllers"
	"go.universe.tf/metallb/internal/k8s/epslices"
	"go.universe.tf/metallb/internal/layer2"
	"go.universe.tf/metallb/internal/speakerlist"
	kit "go.universe.tf/metallb/internal/verifkit"
	v1 "k8s.io/api/core/v1"
	discovery "k8s.io/api/discovery/v1"
	apierrors "k8s.io/apimachinery/pkg/api/errors"
	metav1 "k8s.io/apimachinery/pkg/apis/meta/v1"
	"k8s.io/apimachinery/pkg/labels"
	"k8s.io/apimachinery/pkg/runtime/schema"
	"k8s.io/apimachinery/pkg/types"
	ctrl "sigs.k8s.io/controller-runtime"
	"sigs.k8s.io/controller-runtime/pkg/client"
	"sigs.k8s.io/controller-runtime/pkg/event"
)

const (
	vSpkMe      = "n1"
	vSpkNS      = "ns1"
	vSpkMetalNS = "metallb-system"
)

var vSpkNodeNames = []string{"n1", "n2"}

// The two abstract services are two Kubernetes Services with the SAME name in different
// namespaces: s1 = ns1/svc, s2 = ns2/svc.
const vSpkSvcName = "svc"

var vSpkSvcNs = map[string]string{"s1": "ns1", "s2": "ns2"}

func vSpkKey(s string) string { return vSpkSvcNs[s] + "/" + vSpkSvcName }

// vSpkAbsSvc maps a namespaced name back to the abstract service ("?ns/name" when unknown).
func vSpkAbsSvc(key string) string {
	for s := range vSpkSvcNs {
		if vSpkKey(s) == key {
			return s
		}
	}
	return "?" + key
}
var vSpkSvcNames = []string{"s1", "s2"}

// ---------------------------------------------------------------- abstract cluster state

type vSpkEp struct {
	Node  string `json:"node"`
	Ready bool   `json:"ready"`
}

type vSpkSvc struct {
	Null bool     `json:"null,omitempty"`
	Type string   `json:"type"`
	Ips  []int    `json:"ips"`
	Etp  string   `json:"etp"`
	Eps  []vSpkEp `json:"eps"`
}

// MarshalJSON never emits JSON null (the judge cannot read it).
func (s vSpkSvc) MarshalJSON() ([]byte, error) {
	if s.Null {
		return []byte(`{"null":true}`), nil
	}
	ips, eps := s.Ips, s.Eps
	if ips == nil {
		ips = []int{}
	}
	if eps == nil {
		eps = []vSpkEp{}
	}
	return json.Marshal(struct {
		Type string   `json:"type"`
		Ips  []int    `json:"ips"`
		Etp  string   `json:"etp"`
		Eps  []vSpkEp `json:"eps"`
	}{s.Type, ips, s.Etp, eps})
}

type vSpkNode struct {
	Label   string `json:"label"`
	Unavail bool   `json:"unavail"`
	Excl    bool   `json:"excl"`
}

type vSpkCluster struct {
	Svcs    map[string]vSpkSvc  `json:"svcs"`
	Nodes   map[string]vSpkNode `json:"nodes"`
	Layout  string              `json:"layout"`
	Members []string            `json:"members"`
	Ml      bool                `json:"ml"`
	Ign     bool                `json:"ign"`
}

type vSpkAct struct {
	Op     string          `json:"op"`
	S      string          `json:"s"`
	N      string          `json:"n"`
	P      string          `json:"p"`
	V      json.RawMessage `json:"v"`
	Layout string          `json:"layout"`
}

func (c *vSpkCluster) clone() *vSpkCluster {
	b, _ := json.Marshal(c)
	var out vSpkCluster
	kit.Must(json.Unmarshal(b, &out))
	return &out
}

// ---------------------------------------------------------------- rendering as Kubernetes objects

func vSpkService(name string, s vSpkSvc) *v1.Service {
	ns, ok := vSpkSvcNs[name]
	if !ok {
		ns = vSpkNS // scratch objects of the harness (duels)
	}
	svc := &v1.Service{ObjectMeta: metav1.ObjectMeta{Name: vSpkSvcName, Namespace: ns}}
	svc.Spec.Type = v1.ServiceTypeClusterIP
	if s.Type == "LB" {
		svc.Spec.Type = v1.ServiceTypeLoadBalancer
	}
	svc.Spec.ExternalTrafficPolicy = v1.ServiceExternalTrafficPolicyTypeCluster
	if s.Etp == "Local" {
		svc.Spec.ExternalTrafficPolicy = v1.ServiceExternalTrafficPolicyTypeLocal
	}
	for _, a := range s.Ips {
		svc.Status.LoadBalancer.Ingress = append(svc.Status.LoadBalancer.Ingress, v1.LoadBalancerIngress{IP: kit.SpkIP(a).String()})
	}
	return svc
}

func vSpkSlices(name string, s vSpkSvc, rnd *rand.Rand) []discovery.EndpointSlice {
	if len(s.Eps) == 0 {
		return []discovery.EndpointSlice{}
	}
	// one endpoint per slice or all in one slice, the order shuffled: the meaning is the same
	eps := []discovery.Endpoint{}
	for i, e := range s.Eps {
		ready := e.Ready
		ep := discovery.Endpoint{Addresses: []string{fmt.Sprintf("10.1.%d.%d", int(name[len(name)-1]), 10+i)}}
		ep.Conditions.Ready = &ready
		if !ready {
			f := false
			ep.Conditions.Serving = &f
		}
		if e.Node != "" {
			n := e.Node
			ep.NodeName = &n
		}
		eps = append(eps, ep)
	}
	rnd.Shuffle(len(eps), func(i, j int) { eps[i], eps[j] = eps[j], eps[i] })
	mk := func(k int, l []discovery.Endpoint) discovery.EndpointSlice {
		ns, ok := vSpkSvcNs[name]
		if !ok {
			ns = vSpkNS
		}
		return discovery.EndpointSlice{ObjectMeta: metav1.ObjectMeta{Name: name + "-" + strconv.Itoa(k), Namespace: ns,
			Labels: map[string]string{discovery.LabelServiceName: vSpkSvcName}}, AddressType: discovery.AddressTypeIPv4, Endpoints: l}
	}
	if rnd.Intn(2) == 0 {
		return []discovery.EndpointSlice{mk(0, eps)}
	}
	out := []discovery.EndpointSlice{}
	for k, e := range eps {
		out = append(out, mk(k, []discovery.Endpoint{e}))
	}
	return out
}

func vSpkNodeObj(name string, n vSpkNode) *v1.Node {
	node := &v1.Node{ObjectMeta: metav1.ObjectMeta{Name: name, Labels: map[string]string{"kubernetes.io/hostname": name, "rack": n.Label}}}
	node.Status.Conditions = append(node.Status.Conditions, v1.NodeCondition{Type: v1.NodeReady, Status: v1.ConditionTrue})
	if n.Unavail {
		node.Status.Conditions = append(node.Status.Conditions, v1.NodeCondition{Type: v1.NodeNetworkUnavailable, Status: v1.ConditionTrue})
	}
	if n.Excl {
		node.Labels[v1.LabelNodeExcludeBalancers] = ""
	}
	return node
}

func vSpkSelectors(nsel string) []metav1.LabelSelector {
	if nsel == "" {
		return nil
	}
	return []metav1.LabelSelector{{MatchLabels: map[string]string{"rack": nsel}}}
}

// the abstract interface names: ifA is an interface the node has, ifX one it does not have
var (
	vSpkIfOnce sync.Once
	vSpkIfA    string
	vSpkIfExcl *regexp.Regexp
)

const vSpkIfX = "verifnone0"

// vSpkLocalIf picks the local interface that stands for ifA (the loopback if there is one) and
// builds the exclusion expression that hides every other interface from the announcer, so that
// no raw socket is opened by the thousands of announcers of a run.
func vSpkLocalIf() (string, *regexp.Regexp) {
	vSpkIfOnce.Do(func() {
		ifs, err := net.Interfaces()
		if err != nil || len(ifs) == 0 {
			panic("no network interface to stand for ifA")
		}
		pick := ifs[0].Name
		for _, i := range ifs {
			if i.Flags&net.FlagLoopback != 0 {
				pick = i.Name
				break
			}
		}
		others := []string{}
		for _, i := range ifs {
			if i.Name != pick {
				others = append(others, regexp.QuoteMeta(i.Name))
			}
		}
		vSpkIfA = pick
		if len(others) > 0 {
			vSpkIfExcl = regexp.MustCompile("^(" + strings.Join(others, "|") + ")$")
		}
	})
	return vSpkIfA, vSpkIfExcl
}

func vSpkIfConcrete(a string) string {
	if a == "ifA" {
		n, _ := vSpkLocalIf()
		return n
	}
	return vSpkIfX
}

func vSpkIfAbstract(c string) string {
	n, _ := vSpkLocalIf()
	switch c {
	case n:
		return "ifA"
	case vSpkIfX:
		return "ifX"
	}
	return "?" + c
}

var vSpkPeerAddr = map[string]string{"p1": "10.9.0.1", "p2": "10.9.0.2"}

// ---------------------------------------------------------------- the fake API reader

var vSpkSvcGR = schema.GroupResource{Group: "", Resource: "services"}
var vSpkNodeGR = schema.GroupResource{Group: "", Resource: "nodes"}
var vSpkCmGR = schema.GroupResource{Group: "", Resource: "configmaps"}

type vSpkReader struct {
	client.Client
	w *vSpkWorld
}

func (r vSpkReader) Get(_ context.Context, key client.ObjectKey, obj client.Object, _ ...client.GetOption) error {
	cl := r.w.cl
	switch o := obj.(type) {
	case *v1.Service:
		a := vSpkAbsSvc(key.Namespace + "/" + key.Name)
		s, ok := cl.Svcs[a]
		if !ok || s.Null {
			return apierrors.NewNotFound(vSpkSvcGR, key.Name)
		}
		vSpkService(a, s).DeepCopyInto(o)
		return nil
	case *v1.Node:
		n, ok := cl.Nodes[key.Name]
		if !ok {
			return apierrors.NewNotFound(vSpkNodeGR, key.Name)
		}
		vSpkNodeObj(key.Name, n).DeepCopyInto(o)
		return nil
	case *v1.ConfigMap:
		return apierrors.NewNotFound(vSpkCmGR, key.Name)
	}
	return fmt.Errorf("unexpected Get of %T", obj)
}

func (r vSpkReader) List(_ context.Context, list client.ObjectList, opts ...client.ListOption) error {
	cl := r.w.cl
	cat := kit.SpkCat()
	lay := cat.Layouts[cl.Layout]
	rnd := r.w.rnd
	switch l := list.(type) {
	case *v1.ServiceList:
		lo := &client.ListOptions{}
		lo.ApplyOptions(opts)
		l.Items = nil
		names := kit.SortedKeys(cl.Svcs)
		rnd.Shuffle(len(names), func(i, j int) { names[i], names[j] = names[j], names[i] })
		for _, n := range names {
			if s := cl.Svcs[n]; !s.Null {
				svc := vSpkService(n, s)
				if vSpkListed(lo, svc.Namespace, svc.Labels) {
					l.Items = append(l.Items, *svc)
				}
			}
		}
	case *discovery.EndpointSliceList:
		// every slice of the cluster, narrowed by whatever the caller asked for: the field index
		// on the owning service (namespace/name), a namespace, a label selector
		lo := &client.ListOptions{}
		lo.ApplyOptions(opts)
		l.Items = []discovery.EndpointSlice{}
		names := kit.SortedKeys(cl.Svcs)
		rnd.Shuffle(len(names), func(i, j int) { names[i], names[j] = names[j], names[i] })
		for _, n := range names {
			s := cl.Svcs[n]
			if s.Null {
				continue
			}
			if lo.FieldSelector != nil {
				val, ok := lo.FieldSelector.RequiresExactMatch(epslices.SlicesServiceIndexName)
				if !ok {
					return fmt.Errorf("endpoint slices listed with an unknown field selector %s", lo.FieldSelector)
				}
				if val != vSpkKey(n) {
					continue
				}
			}
			for _, sl := range vSpkSlices(n, s, rnd) {
				if vSpkListed(lo, sl.Namespace, sl.Labels) {
					l.Items = append(l.Items, sl)
				}
			}
		}
	case *v1.NodeList:
		l.Items = nil
		names := kit.SortedKeys(cl.Nodes)
		rnd.Shuffle(len(names), func(i, j int) { names[i], names[j] = names[j], names[i] })
		for _, n := range names {
			l.Items = append(l.Items, *vSpkNodeObj(n, cl.Nodes[n]))
		}
	case *v1.NamespaceList:
		l.Items = []v1.Namespace{{ObjectMeta: metav1.ObjectMeta{Name: "ns1"}}, {ObjectMeta: metav1.ObjectMeta{Name: "ns2"}}}
	case *v1.SecretList:
		l.Items = nil
	case *metallbv1beta1.BFDProfileList:
		l.Items = nil
	case *metallbv1beta1.CommunityList:
		l.Items = nil
	case *metallbv1beta1.IPAddressPoolList:
		l.Items = nil
		for _, p := range lay.Pools {
			cr := metallbv1beta1.IPAddressPool{ObjectMeta: metav1.ObjectMeta{Name: p, Namespace: vSpkMetalNS}}
			cr.Spec.Addresses = append(cr.Spec.Addresses, cat.Pools[p].Cidrs...)
			l.Items = append(l.Items, cr)
		}
		rnd.Shuffle(len(l.Items), func(i, j int) { l.Items[i], l.Items[j] = l.Items[j], l.Items[i] })
	case *metallbv1beta2.BGPPeerList:
		l.Items = nil
		for _, p := range lay.Peers {
			cr := metallbv1beta2.BGPPeer{ObjectMeta: metav1.ObjectMeta{Name: p.Name, Namespace: vSpkMetalNS}}
			cr.Spec.MyASN = 64512
			cr.Spec.ASN = 64513
			cr.Spec.Address = vSpkPeerAddr[p.Name]
			cr.Spec.NodeSelectors = vSpkSelectors(p.Nsel)
			l.Items = append(l.Items, cr)
		}
		rnd.Shuffle(len(l.Items), func(i, j int) { l.Items[i], l.Items[j] = l.Items[j], l.Items[i] })
	case *metallbv1beta1.L2AdvertisementList:
		l.Items = nil
		for _, x := range lay.L2 {
			a := cat.L2[x]
			cr := metallbv1beta1.L2Advertisement{ObjectMeta: metav1.ObjectMeta{Name: a.Name, Namespace: vSpkMetalNS}}
			cr.Spec.IPAddressPools = append(cr.Spec.IPAddressPools, a.Pools...)
			cr.Spec.NodeSelectors = vSpkSelectors(a.Nsel)
			for _, i := range a.Ifs {
				cr.Spec.Interfaces = append(cr.Spec.Interfaces, vSpkIfConcrete(i))
			}
			l.Items = append(l.Items, cr)
		}
		rnd.Shuffle(len(l.Items), func(i, j int) { l.Items[i], l.Items[j] = l.Items[j], l.Items[i] })
	case *metallbv1beta1.BGPAdvertisementList:
		l.Items = nil
		for _, x := range lay.Bgp {
			a := cat.Bgp[x]
			cr := metallbv1beta1.BGPAdvertisement{ObjectMeta: metav1.ObjectMeta{Name: a.Name, Namespace: vSpkMetalNS}}
			cr.Spec.IPAddressPools = append(cr.Spec.IPAddressPools, a.Pools...)
			cr.Spec.NodeSelectors = vSpkSelectors(a.Nsel)
			cr.Spec.Peers = append(cr.Spec.Peers, a.Peers...)
			a4, a6 := int32(a.Agg4), int32(a.Agg6)
			cr.Spec.AggregationLength = &a4
			cr.Spec.AggregationLengthV6 = &a6
			cr.Spec.LocalPref = uint32(a.Lp)
			for _, c := range a.Comms {
				cr.Spec.Communities = append(cr.Spec.Communities, kit.SpkCommunity(c))
			}
			l.Items = append(l.Items, cr)
		}
		rnd.Shuffle(len(l.Items), func(i, j int) { l.Items[i], l.Items[j] = l.Items[j], l.Items[i] })
	default:
		return fmt.Errorf("unexpected List of %T", list)
	}
	return nil
}

// vSpkListed applies the namespace and label selector of a List call.
func vSpkListed(lo *client.ListOptions, ns string, lbls map[string]string) bool {
	if lo.Namespace != "" && lo.Namespace != ns {
		return false
	}
	if lo.LabelSelector != nil && !lo.LabelSelector.Matches(labels.Set(lbls)) {
		return false
	}
	return true
}

// ---------------------------------------------------------------- recording BGP sessions, memberlist

type vSpkSession struct {
	m      *vSpkSessions
	id     int
	name   string
	mu     sync.Mutex
	last   []*bgp.Advertisement
	nset   int
	closed bool
}

func (s *vSpkSession) Set(ads ...*bgp.Advertisement) error {
	s.m.mu.Lock()
	fail := s.m.armedSet
	s.m.armedSet = false
	if fail {
		s.m.setFailed++
	}
	s.m.mu.Unlock()
	if fail {
		return fmt.Errorf("injected failure of Set on %s", s.name)
	}
	s.mu.Lock()
	defer s.mu.Unlock()
	s.last = append([]*bgp.Advertisement{}, ads...)
	s.nset++
	return nil
}

func (s *vSpkSession) Close() error {
	s.mu.Lock()
	defer s.mu.Unlock()
	s.closed = true
	return nil
}

// vSpkSessions is the recording session manager.  Every NewSession is a NEW session whose last
// Set is empty until Set is called.  Faults are armed by the script and fire at the next call.
type vSpkSessions struct {
	mu          sync.Mutex
	all         []*vSpkSession
	opened      int
	armedStart  map[string]bool
	armedSet    bool
	startFailed map[string]bool // peers whose latest start failed
	setFailed   int
	startFailN  int
}

func (m *vSpkSessions) NewSession(_ log.Logger, a bgp.SessionParameters) (bgp.Session, error) {
	m.mu.Lock()
	defer m.mu.Unlock()
	if m.armedStart[a.SessionName] {
		delete(m.armedStart, a.SessionName)
		m.startFailed[a.SessionName] = true
		m.startFailN++
		return nil, fmt.Errorf("injected failure of NewSession for %s", a.SessionName)
	}
	delete(m.startFailed, a.SessionName)
	m.opened++
	s := &vSpkSession{m: m, id: m.opened, name: a.SessionName}
	m.all = append(m.all, s)
	return s, nil
}
func (m *vSpkSessions) SyncBFDProfiles(map[string]*config.BFDProfile) error { return nil }
func (m *vSpkSessions) SyncExtraInfo(string) error                          { return nil }
func (m *vSpkSessions) SetEventCallback(func(interface{}))                  {}

type vSpkSL struct {
	w *vSpkWorld
}

func (s *vSpkSL) UsableSpeakers() speakerlist.SpeakerListInfo {
	if !s.w.cl.Ml {
		return speakerlist.SpeakerListInfo{Disabled: true}
	}
	m := map[string]bool{}
	for _, n := range s.w.cl.Members {
		m[n] = true
	}
	return speakerlist.SpeakerListInfo{Nodes: m}
}
func (s *vSpkSL) Rejoin() {}

type vSpkClient struct{}

func (vSpkClient) UpdateStatus(*v1.Service) error                      { return nil }
func (vSpkClient) Infof(*v1.Service, string, string, ...interface{})  {}
func (vSpkClient) Errorf(*v1.Service, string, string, ...interface{}) {}

// ---------------------------------------------------------------- the world

type vSpkWorld struct {
	id   string
	rnd  *rand.Rand
	cl   *vSpkCluster
	c    *controller
	mgr  *vSpkSessions
	sr   *controllers.ServiceReconciler
	nr   *controllers.NodeReconciler
	cr   *controllers.ConfigReconciler
	relC chan event.GenericEvent
	// work queues
	svcQ   map[string]bool
	nodeQ  map[string]bool
	cfgQ   bool
	reload bool
	// bookkeeping of the driver (not an oracle): services handed to the handler since the
	// configuration was last loaded by the speaker
	since   map[string]bool
	errS    map[string]bool // services whose latest handler call returned an error
	handled []string
	lastCfg *config.Config
	blk     *kit.Block
	nobs    int
}

var vSpkNewMu sync.Mutex

func vSpkNewWorld(id string, seed int64, cl *vSpkCluster, blk *kit.Block) *vSpkWorld {
	w := &vSpkWorld{id: id, rnd: rand.New(rand.NewSource(seed)), cl: cl, blk: blk,
		svcQ: map[string]bool{}, nodeQ: map[string]bool{}, since: map[string]bool{}, errS: map[string]bool{}}
	w.mgr = &vSpkSessions{armedStart: map[string]bool{}, startFailed: map[string]bool{}}
	_, excl := vSpkLocalIf()
	vSpkNewMu.Lock()
	saved := newBGP
	newBGP = func(controllerConfig) bgp.SessionManager { return w.mgr }
	c, err := newController(controllerConfig{
		MyNode:                 vSpkMe,
		Namespace:              vSpkMetalNS,
		FRRK8sNamespace:        vSpkMetalNS,
		Logger:                 log.NewNopLogger(),
		SList:                  &vSpkSL{w: w},
		bgpType:                bgpFrr,
		IgnoreExcludeLB:        cl.Ign,
		InterfaceExcludeRegexp: excl,
		Layer2StatusChange:     func(types.NamespacedName) {},
		BGPAdsChangedCallback:  func(string) {},
	})
	newBGP = saved
	vSpkNewMu.Unlock()
	if err != nil {
		panic("newController: " + err.Error())
	}
	c.client = vSpkClient{}
	w.c = c
	// the announcer lists the interfaces in a goroutine of its own: wait for its first scan
	ann := c.protocolHandlers[config.Layer2].(*layer2Controller).announcer
	for k := 0; len(ann.GetInterfaces()) == 0; k++ {
		if k > 20000 {
			panic("the layer-2 announcer never listed a local interface")
		}
		time.Sleep(500 * time.Microsecond)
	}
	w.relC = make(chan event.GenericEvent, 4096)
	rd := vSpkReader{w: w}
	force := func() { w.reload = true }
	w.sr = &controllers.ServiceReconciler{Client: rd, Logger: log.NewNopLogger(), Endpoints: true, Reload: w.relC,
		Handler: func(l log.Logger, name string, svc *v1.Service, eps []discovery.EndpointSlice) controllers.SyncState {
			w.handled = append(w.handled, vSpkAbsSvc(name))
			w.since[vSpkAbsSvc(name)] = true
			st := c.SetBalancer(l, name, svc, eps)
			if st == controllers.SyncStateError {
				w.errS[vSpkAbsSvc(name)] = true
			} else {
				delete(w.errS, vSpkAbsSvc(name))
			}
			return st
		}}
	w.nr = &controllers.NodeReconciler{Client: rd, Logger: log.NewNopLogger(), NodeName: vSpkMe, Handler: c.SetNode, ForceReload: force}
	w.cr = &controllers.ConfigReconciler{Client: rd, Logger: log.NewNopLogger(), Namespace: vSpkMetalNS,
		ValidateConfig: config.DiscardNativeOnly, ForceReload: force, BGPType: string(bgpFrr),
		Handler: func(l log.Logger, cfg *config.Config) controllers.SyncState {
			st := c.SetConfig(l, cfg)
			if c.config != w.lastCfg {
				w.lastCfg = c.config
				w.since = map[string]bool{}
			}
			return st
		}}
	// at start every existing object has an initial event
	for n, s := range cl.Svcs {
		if !s.Null {
			w.svcQ[n] = true
		}
	}
	for n := range cl.Nodes {
		w.nodeQ[n] = true
	}
	w.cfgQ = true
	return w
}

func (w *vSpkWorld) drainReload() {
	for {
		select {
		case <-w.relC:
			w.reload = true
		default:
			return
		}
	}
}

func (w *vSpkWorld) quiescent() bool {
	return len(w.svcQ) == 0 && len(w.nodeQ) == 0 && !w.cfgQ && !w.reload && controllers.VerifGate(w.sr)
}

func vSpkReq(ns, name string) ctrl.Request {
	return ctrl.Request{NamespacedName: types.NamespacedName{Namespace: ns, Name: name}}
}

// exec runs one scripted step; a delivery step whose event is not pending in the real run is
// skipped (the script comes from the model, the queues are the real ones).
func (w *vSpkWorld) exec(a vSpkAct) (skipped bool) {
	ctx := context.Background()
	w.handled = []string{}
	switch a.Op {
	case "EnvSvc":
		var v vSpkSvc
		kit.Must(json.Unmarshal(a.V, &v))
		w.cl.Svcs[a.S] = v
		w.svcQ[a.S] = true
	case "EnvNode":
		var v vSpkNode
		kit.Must(json.Unmarshal(a.V, &v))
		old := w.cl.Nodes[a.N]
		w.cl.Nodes[a.N] = v
		// NodeReconcilerPredicate: label or network-availability changes; the configuration
		// reconciler watches label changes
		if old.Label != v.Label || old.Excl != v.Excl || old.Unavail != v.Unavail {
			w.nodeQ[a.N] = true
		}
		if old.Label != v.Label || old.Excl != v.Excl {
			w.cfgQ = true
		}
	case "EnvLayout":
		w.cl.Layout = a.Layout
		w.cfgQ = true
	case "EnvMember":
		out := []string{}
		found := false
		for _, n := range w.cl.Members {
			if n == a.N {
				found = true
			} else {
				out = append(out, n)
			}
		}
		if !found {
			out = append(out, a.N)
		}
		sort.Strings(out)
		w.cl.Members = out
		w.reload = true // the speaker list forces a sync
	case "ArmStart":
		w.mgr.mu.Lock()
		w.mgr.armedStart[a.P] = true
		w.mgr.mu.Unlock()
	case "ArmSet":
		w.mgr.mu.Lock()
		w.mgr.armedSet = true
		w.mgr.mu.Unlock()
	case "DeliverSvc":
		if !w.svcQ[a.S] {
			return true
		}
		delete(w.svcQ, a.S)
		if _, err := w.sr.Reconcile(ctx, vSpkReq(vSpkSvcNs[a.S], vSpkSvcName)); err != nil {
			w.svcQ[a.S] = true
		}
	case "DeliverNode":
		if !w.nodeQ[a.N] {
			return true
		}
		delete(w.nodeQ, a.N)
		if _, err := w.nr.Reconcile(ctx, vSpkReq("", a.N)); err != nil {
			w.nodeQ[a.N] = true
		}
	case "DeliverConfig":
		if !w.cfgQ {
			return true
		}
		w.cfgQ = false
		_, err := w.cr.Reconcile(ctx, vSpkReq(vSpkMetalNS, "cfg"))
		if err != nil {
			w.cfgQ = true
		} else if !controllers.VerifHasConfig(w.cr) {
			panic("layout " + w.cl.Layout + " was rejected by the configuration parser")
		}
	case "ResyncPass":
		if !w.reload {
			return true
		}
		w.reload = false
		if _, err := w.sr.Reconcile(ctx, vSpkReq("metallbreload", "reload")); err != nil {
			w.reload = true
		}
	default:
		panic("unknown op " + a.Op)
	}
	w.drainReload()
	return false
}

// ---------------------------------------------------------------- projection

type vSpkRoute struct {
	Pfx   kit.SpkPrefix `json:"pfx"`
	Lp    int           `json:"lp"`
	Comms []string      `json:"comms"`
	Raw   string        `json:"raw"`
}

type vSpkPeerObs struct {
	Nsel   string      `json:"nsel"`
	Up     bool        `json:"up"`
	ID     int         `json:"id"`
	Nset   int         `json:"nset"`
	Routes []vSpkRoute `json:"routes"`
}

type vSpkL2Obs struct {
	S   string   `json:"s"`
	Ip  int      `json:"ip"`
	All bool     `json:"all"`
	Ifs []string `json:"ifs"`
}

func vSpkRoutes(ads []*bgp.Advertisement) []vSpkRoute {
	out := []vSpkRoute{}
	for _, ad := range ads {
		r := vSpkRoute{Pfx: kit.SpkProjectPrefix(ad.Prefix), Lp: int(ad.LocalPref), Comms: []string{}}
		if ad.Prefix != nil {
			r.Raw = ad.Prefix.String()
		}
		for _, c := range ad.Communities {
			s := c.String()
			if community.IsLarge(c) {
				s = "large:" + s
			}
			r.Comms = append(r.Comms, kit.SpkCommunityName(s))
		}
		sort.Strings(r.Comms)
		out = append(out, r)
	}
	sort.Slice(out, func(i, j int) bool { return out[i].Raw+fmt.Sprint(out[i].Lp, out[i].Comms) < out[j].Raw+fmt.Sprint(out[j].Lp, out[j].Comms) })
	return out
}

func vSpkNsel(p *config.Peer) string {
	parts := []string{}
	for _, s := range p.NodeSelectors {
		if str := s.String(); str != "" {
			parts = append(parts, strings.TrimPrefix(str, "rack="))
		}
	}
	return strings.Join(parts, ",")
}

// announcements projects what the controller announces: layer-2 table, configured peers with
// their sessions, reported peers per service.
func vSpkAnnouncements(c *controller) (l2 []vSpkL2Obs, peers map[string]vSpkPeerObs, rep map[string][]string) {
	l2 = []vSpkL2Obs{}
	ann := c.protocolHandlers[config.Layer2].(*layer2Controller).announcer
	for name, advs := range layer2.VerifIPs(ann) {
		for _, a := range advs {
			ifs := []string{}
			for _, i := range a.Ifs {
				ifs = append(ifs, vSpkIfAbstract(i))
			}
			sort.Strings(ifs)
			l2 = append(l2, vSpkL2Obs{S: vSpkAbsSvc(name), Ip: kit.SpkAbs(a.IP), All: a.All, Ifs: ifs})
		}
	}
	sort.Slice(l2, func(i, j int) bool { return l2[i].S+strconv.Itoa(l2[i].Ip) < l2[j].S+strconv.Itoa(l2[j].Ip) })
	peers = map[string]vSpkPeerObs{}
	bc := c.protocolHandlers[config.BGP].(*bgpController)
	for _, p := range bc.peers {
		o := vSpkPeerObs{Nsel: vSpkNsel(p.cfg), Routes: []vSpkRoute{}}
		if p.session != nil {
			s := p.session.(*vSpkSession)
			s.mu.Lock()
			o.Up, o.ID, o.Nset = !s.closed, s.id, s.nset
			o.Routes = vSpkRoutes(s.last)
			s.mu.Unlock()
		}
		peers[p.cfg.Name] = o
	}
	rep = map[string][]string{}
	for _, s := range vSpkSvcNames {
		l := []string{}
		for p := range bc.PeersForService(vSpkKey(s)) {
			l = append(l, p)
		}
		sort.Strings(l)
		rep[s] = l
	}
	return
}

// loaded projects the configuration the speaker holds: pool -> BGP advertisement -> node set.
func vSpkLoaded(c *controller) map[string]any {
	if c.config == nil || c.config.Pools == nil {
		return map[string]any{"null": true}
	}
	pools := map[string]any{}
	for name, p := range c.config.Pools.ByName {
		bgpn := map[string][]string{}
		for _, a := range p.BGPAdvertisements {
			nodes := []string{}
			for n, ok := range a.Nodes {
				if ok {
					nodes = append(nodes, n)
				}
			}
			sort.Strings(nodes)
			bgpn[a.Name] = nodes
		}
		pools[name] = map[string]any{"bgp": bgpn}
	}
	return map[string]any{"pools": pools}
}

func (w *vSpkWorld) observe(i int, raw json.RawMessage, op string, skipped bool) {
	c := w.c
	q := w.quiescent()
	l2, peers, rep := vSpkAnnouncements(c)
	seen := map[string]vSpkNode{}
	for name, n := range c.nodes {
		seen[name] = vSpkNode{Label: n.Labels["rack"], Unavail: vSpkIsUnavail(n), Excl: vSpkHasExcl(n)}
	}
	ips := map[string][]int{}
	for name, l := range c.svcIPs {
		x := []int{}
		for _, ip := range l {
			x = append(x, kit.SpkAbs(ip))
		}
		ips[vSpkAbsSvc(name)] = x
	}
	annB, annL := vSpkAnnSets(c)
	closed := 0
	w.mgr.mu.Lock()
	for _, s := range w.mgr.all {
		if s.closed {
			closed++
		}
	}
	opened := w.mgr.opened
	sf := []string{}
	for _, p := range c.protocolHandlers[config.BGP].(*bgpController).peers {
		if w.mgr.startFailed[p.cfg.Name] && p.session == nil {
			sf = append(sf, p.cfg.Name)
		}
	}
	sort.Strings(sf)
	armed := kit.SortedKeys(w.mgr.armedStart)
	fset, setFailed, startFailN := w.mgr.armedSet, w.mgr.setFailed, w.mgr.startFailN
	w.mgr.mu.Unlock()
	if w.handled == nil {
		w.handled = []string{}
	}
	o := map[string]any{"w": w.id, "n": w.nobs, "i": i, "op": op, "act": raw, "skipped": skipped, "q": q,
		"reload": w.reload, "gate": controllers.VerifGate(w.sr), "cfgQ": w.cfgQ, "svcQ": kit.SortedKeys(w.svcQ), "nodeQ": kit.SortedKeys(w.nodeQ),
		"cl": w.cl, "ctl": vSpkLoaded(c), "seen": seen, "annB": annB, "annL": annL, "ips": ips, "since": kit.SortedKeys(w.since),
		"handled": w.handled, "errS": kit.SortedKeys(w.errS), "sf": sf, "fs": armed, "fset": fset, "setFailed": setFailed, "startFailedN": startFailN, "l2": l2, "peers": peers, "rep": rep, "opened": opened, "closed": closed,
		"rank": vSpkRankFor(w.cl), "localifs": []string{"ifA"}}
	if q {
		o["fresh"] = vSpkFresh(w.cl)
	}
	w.nobs++
	w.blk.Add(o)
}

func vSpkAnnSets(c *controller) (annB, annL []string) {
	annB, annL = []string{}, []string{}
	for name, ok := range c.announced[config.BGP] {
		if ok {
			annB = append(annB, vSpkAbsSvc(name))
		}
	}
	for name, ok := range c.announced[config.Layer2] {
		if ok {
			annL = append(annL, vSpkAbsSvc(name))
		}
	}
	sort.Strings(annB)
	sort.Strings(annL)
	return
}

func vSpkIsUnavail(n *v1.Node) bool {
	for _, c := range n.Status.Conditions {
		if c.Type == v1.NodeNetworkUnavailable {
			return c.Status == v1.ConditionTrue
		}
	}
	return false
}

func vSpkHasExcl(n *v1.Node) bool {
	_, ok := n.Labels[v1.LabelNodeExcludeBalancers]
	return ok
}

// ---------------------------------------------------------------- observed hash order

var (
	vSpkRankOnce sync.Once
	vSpkRankTab  map[string]string
)

// vSpkRank observes, from the real layer2Controller, which of the two node names wins the
// election for each address of the domain when both are candidates (a two-node duel).
func vSpkRank() map[string]string {
	vSpkRankOnce.Do(func() {
		vSpkRankTab = map[string]string{}
		nodes := map[string]*v1.Node{}
		adv := &config.L2Advertisement{Nodes: map[string]bool{}, AllInterfaces: true}
		for _, n := range vSpkNodeNames {
			nodes[n] = vSpkNodeObj(n, vSpkNode{Label: "a"})
			adv.Nodes[n] = true
		}
		pool := &config.Pool{Name: "duel", L2Advertisements: []*config.L2Advertisement{adv}}
		svcv := vSpkSvc{Type: "LB", Etp: "Cluster", Eps: []vSpkEp{{Node: "n1", Ready: true}}}
		eps := vSpkSlices("duel", svcv, rand.New(rand.NewSource(1)))
		for a := 0; a < 116; a++ {
			if a >= 16 && a < 100 {
				continue
			}
			ip := kit.SpkIP(a)
			winners := []string{}
			for _, n := range vSpkNodeNames {
				lc := &layer2Controller{myNode: n, sList: vSpkDuelSL{}}
				svcv.Ips = []int{a}
				if lc.ShouldAnnounce(log.NewNopLogger(), "ns1/duel", []net.IP{ip}, pool, vSpkService("duel", svcv), eps, nodes) == "" {
					winners = append(winners, n)
				}
			}
			vSpkRankTab[strconv.Itoa(a)] = strings.Join(winners, "+")
		}
	})
	return vSpkRankTab
}

// vSpkRankFor: the observed order restricted to the first addresses in use.
func vSpkRankFor(cl *vSpkCluster) map[string]string {
	all := vSpkRank()
	out := map[string]string{}
	for _, s := range cl.Svcs {
		if !s.Null && len(s.Ips) > 0 {
			k := strconv.Itoa(s.Ips[0])
			if v, ok := all[k]; ok {
				out[k] = v
			}
		}
	}
	return out
}

type vSpkDuelSL struct{}

func (vSpkDuelSL) UsableSpeakers() speakerlist.SpeakerListInfo {
	return speakerlist.SpeakerListInfo{Nodes: map[string]bool{"n1": true, "n2": true}}
}
func (vSpkDuelSL) Rejoin() {}

// ---------------------------------------------------------------- a fresh speaker on a cluster state

var vSpkFreshMemo sync.Map

// vSpkFresh starts a new speaker on the given cluster state (every node known, then the
// configuration, then the services and the re-syncs they request) and reports what it announces.
func vSpkFresh(cl *vSpkCluster) map[string]any {
	key, _ := json.Marshal(cl)
	if v, ok := vSpkFreshMemo.Load(string(key)); ok {
		return v.(map[string]any)
	}
	w := vSpkNewWorld("fresh", 7, cl.clone(), &kit.Block{})
	for _, n := range vSpkNodeNames {
		w.exec(vSpkAct{Op: "DeliverNode", N: n})
	}
	w.drainAll()
	l2, peers, rep := vSpkAnnouncements(w.c)
	annB, annL := vSpkAnnSets(w.c)
	out := map[string]any{"l2": l2, "peers": peers, "rep": rep, "q": w.quiescent(), "annB": annB, "annL": annL}
	vSpkFreshMemo.Store(string(key), out)
	return out
}

// drainAll delivers what is pending in a fixed order until nothing is (bounded).
func (w *vSpkWorld) drainAll() (steps []vSpkAct) {
	for k := 0; k < 30 && !w.quiescent(); k++ {
		var a vSpkAct
		switch {
		case len(w.nodeQ) > 0:
			a = vSpkAct{Op: "DeliverNode", N: kit.SortedKeys(w.nodeQ)[0]}
		case w.cfgQ:
			a = vSpkAct{Op: "DeliverConfig"}
		case w.reload:
			a = vSpkAct{Op: "ResyncPass"}
		case len(w.svcQ) > 0:
			a = vSpkAct{Op: "DeliverSvc", S: kit.SortedKeys(w.svcQ)[0]}
		default:
			// start-up gate still closed with nothing pending: the initial list is a re-sync
			w.reload = true
			a = vSpkAct{Op: "ResyncPass"}
		}
		w.exec(a)
		steps = append(steps, a)
		if w.blk != nil && w.id != "fresh" {
			raw, _ := json.Marshal(map[string]string{"op": a.Op, "s": a.S, "n": a.N})
			w.observe(-1, raw, a.Op, false)
		}
	}
	return steps
}

// ---------------------------------------------------------------- driver

func TestVerifSpeakerReplay(t *testing.T) {
	walks := kit.ReadWalks()
	out := kit.NewObsWriter()
	defer out.Close()
	seed, _ := strconv.Atoi(os.Getenv("VERIF_SEED"))
	vSpkRank()
	kit.ForEachWalk(walks, out, func(wk kit.Walk, blk *kit.Block) {
		var cl vSpkCluster
		kit.Must(json.Unmarshal(wk.Init, &cl))
		if cl.Members == nil {
			cl.Members = []string{}
		}
		h := int64(seed)
		for _, c := range wk.ID {
			h = h*131 + int64(c)
		}
		w := vSpkNewWorld(wk.ID, h, &cl, blk)
		w.observe(0, json.RawMessage(`{"op":"Init"}`), "Init", false)
		for i, raw := range wk.Steps {
			var a vSpkAct
			kit.Must(json.Unmarshal(raw, &a))
			skipped := w.exec(a)
			w.observe(i+1, raw, a.Op, skipped)
		}
		if os.Getenv("VERIF_DRAIN") != "0" {
			w.drainAll()
			w.handled = []string{}
			w.observe(-1, json.RawMessage(`{"op":"Drained"}`), "Drained", false)
		}
	})
}
