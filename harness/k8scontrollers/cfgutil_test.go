//go:build verif

package controllers

// Small local helpers (scenario reader, observation writer).  This package does not import the
// shared verifkit: helpers of other families may import packages that import this one.

import (
	"bufio"
	"encoding/json"
	"fmt"
	"os"
	"runtime"
	"sort"
	"sync"
)

func vMust(err error) {
	if err != nil {
		panic(fmt.Sprintf("verif: %v", err))
	}
}

func vSortedKeys[V any](m map[string]V) []string {
	ks := make([]string, 0, len(m))
	for k := range m {
		ks = append(ks, k)
	}
	sort.Strings(ks)
	return ks
}

type vWalk struct {
	ID    string            `json:"id"`
	Init  json.RawMessage   `json:"init"`
	Steps []json.RawMessage `json:"steps"`
}

func vReadLines(env string, fn func([]byte)) {
	f, err := os.Open(os.Getenv(env))
	vMust(err)
	defer f.Close()
	sc := bufio.NewScanner(f)
	sc.Buffer(make([]byte, 1<<20), 1<<28)
	for sc.Scan() {
		if len(sc.Bytes()) > 0 {
			fn(sc.Bytes())
		}
	}
}

// vWriteObs writes blocks[i] (the observations of scenario i, in order) as NDJSON to VERIF_OBS.
func vWriteObs(blocks [][]interface{}) int {
	f, err := os.Create(os.Getenv("VERIF_OBS"))
	vMust(err)
	w := bufio.NewWriterSize(f, 1<<20)
	n := 0
	for _, b := range blocks {
		for _, o := range b {
			x, err := json.Marshal(o)
			vMust(err)
			w.Write(x)
			w.WriteByte('\n')
			n++
		}
	}
	vMust(w.Flush())
	vMust(f.Close())
	return n
}

// vParallel runs fn(i) for i in 0..n-1 on GOMAXPROCS goroutines.
func vParallel(n int, fn func(i int)) {
	var wg sync.WaitGroup
	nw := runtime.GOMAXPROCS(0)
	for w := 0; w < nw; w++ {
		wg.Add(1)
		go func(w int) {
			defer wg.Done()
			for i := w; i < n; i += nw {
				fn(i)
			}
		}(w)
	}
	wg.Wait()
}
