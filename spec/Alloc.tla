-------------------------------- MODULE Alloc --------------------------------
(***************************************************************************)
(* The allocator (internal/allocator/allocator.go) as a sequential object.  *)
(* State: the current pool layout and `allocd`, svc |-> NULL or             *)
(* [pool, ips, ports, sk, bk].  Everything else the Go allocator keeps      *)
(* (sharingKeyForIP, portsInUse, servicesOnIP, poolIPsInUse*, counters) is  *)
(* a derived operator of these two (section "Derived maps"): that derivation*)
(* is the statement "memory equals what a fresh allocator would rebuild".   *)
(*                                                                         *)
(* The operators are pure (they take and return an allocd), so that the     *)
(* controller specification and the judges can re-use them.                 *)
(***************************************************************************)
EXTENDS Domain

(* A request: [ports, sk, bk, fam, pol, v6first]                            *)
(*   ports \subseteq {"tcp80","tcp443","udp80"} non-empty, sk sharing key,  *)
(*   bk backend key, fam \in {"v4","v6","dual"}, pol \in {"S","P","R"}      *)

Holders(al, a) == {t \in DOMAIN al : al[t] # NULL /\ a \in Range(al[t].ips)}
InUse(al) == UNION {Range(al[t].ips) : t \in {u \in DOMAIN al : al[u] # NULL}}

KeyOK(k, sk, bk) == k.sk # "" /\ sk # "" /\ k.sk = sk /\ k.bk = bk

(* checkSharing(svc, ip, ports, key): may s use address a?                  *)
CheckSharing(al, s, a, r) ==
  LET H == Holders(al, a) IN
  IF H = {} THEN TRUE
  ELSE LET t0 == CHOOSE t \in H : TRUE
           others == H \ {s}
       IN /\ (KeyOK(al[t0], r.sk, r.bk) \/ others = {})
          /\ \A t \in others : al[t].ports \cap r.ports = {}

(* Assign(svc, ips, ...): result [ok, al]                                   *)
AssignRes(L, al, s, ips, r) ==
  LET ipset == Range(ips)
      cands == PoolsFor(L, ipset)
  IN IF ips = <<>> \/ cands = {} THEN [ok |-> FALSE, al |-> al, why |-> "notInConfig"]
     ELSE LET p == CHOOSE q \in cands : TRUE IN
       IF ~Compatible(p, s) THEN [ok |-> FALSE, al |-> al, why |-> "incompatiblePool"]
       ELSE IF Len(ips) > 2 THEN [ok |-> FALSE, al |-> al, why |-> "tooMany"]
       ELSE IF Len(ips) = 2 /\ Fam(ips[1]) = Fam(ips[2]) THEN [ok |-> FALSE, al |-> al, why |-> "sameFamily"]
       ELSE IF \E a \in ipset : ~CheckSharing(al, s, a, r) THEN [ok |-> FALSE, al |-> al, why |-> "sharing"]
       ELSE [ok |-> TRUE, why |-> "",
             al |-> [al EXCEPT ![s] = [pool |-> p.name, ips |-> ips, ports |-> r.ports,
                                       sk |-> r.sk, bk |-> r.bk]]]

UnassignRes(al, s) == [al EXCEPT ![s] = NULL]

(* getFreeIPsFromPool: first admissible address per family, scan order.     *)
FirstFree(al, p, s, r, f) ==
  LET seq == ScanOrder(p, f)
      ok(i) == ~(p.avoid /\ Buggy(seq[i])) /\ CheckSharing(al, s, seq[i], r)
      idx == {i \in DOMAIN seq : ok(i)}
  IN IF idx = {} THEN NOADDR ELSE seq[CHOOSE i \in idx : \A j \in idx : i <= j]

(* selectIPsForFamilyAndPolicy on (v4, v6) candidates; <<>> = error.         *)
SelectIPs(ip4, ip6, r) ==
  CASE r.fam = "v4" -> IF ip4 = NOADDR THEN <<>> ELSE <<ip4>>
    [] r.fam = "v6" -> IF ip6 = NOADDR THEN <<>> ELSE <<ip6>>
    [] OTHER ->
       IF ip4 # NOADDR /\ ip6 # NOADDR THEN <<ip4, ip6>>
       ELSE IF r.pol = "P" /\ ip4 # NOADDR THEN <<ip4>>
       ELSE IF r.pol = "P" /\ ip6 # NOADDR THEN <<ip6>>
       ELSE <<>>

Primary(r)   == IF r.v6first THEN "v6" ELSE "v4"
Secondary(r) == IF r.v6first THEN "v4" ELSE "v6"

(* findBestPoolForService over a set of pools with a rank (smaller rank is  *)
(* tried earlier; equal ranks in any order): the set of pools it may return.*)
BestPools(al, ps, rank(_), s, r) ==
  LET has(p, f) == FirstFree(al, p, s, r, f) # NOADDR
      firsts(C) == {p \in C : \A q \in C : rank(p) <= rank(q)}
      full == IF r.fam \in {"v4", "v6"} THEN {p \in ps : has(p, r.fam)}
              ELSE {p \in ps : has(p, "v4") /\ has(p, "v6")}
  IN IF r.fam \in {"v4", "v6"} \/ r.pol # "P" THEN firsts(full)
     ELSE (* dual + PreferDualStack: the scan returns at the first pool with both
             families; otherwise the first pool with the primary family, else the
             first with the secondary one *)
       LET prim == {p \in ps : has(p, Primary(r))}
           sec  == {p \in ps : has(p, Secondary(r))}
       IN IF full # {} THEN firsts(full)
          ELSE IF prim # {} THEN firsts(prim)
          ELSE firsts(sec)

PinnedFor(L, s) == {p \in PoolsOf(L) : p.alloc # NULL /\ p.auto /\ Compatible(p, s)}
UnpinnedAuto(L) == {p \in PoolsOf(L) : p.alloc = NULL /\ p.auto}
(* sortPools: positive priorities ascending, 0 last.                        *)
PinRank(p) == IF p.alloc.prio = 0 THEN 1000000 ELSE p.alloc.prio
ZeroRank(p) == 0

(* allocateFromPools: the set of possible results, each [ok, al, ips].      *)
FromPools(L, al, ps, rank(_), s, r) ==
  LET best == BestPools(al, ps, rank, s, r) IN
  IF best = {} THEN {[ok |-> FALSE, al |-> al, ips |-> <<>>]}
  ELSE { LET ips == SelectIPs(FirstFree(al, p, s, r, "v4"), FirstFree(al, p, s, r, "v6"), r)
             ar  == IF ips = <<>> THEN [ok |-> FALSE, al |-> al] ELSE AssignRes(L, al, s, ips, r)
         IN [ok |-> ar.ok, al |-> ar.al, ips |-> IF ar.ok THEN ips ELSE <<>>] : p \in best }

(* Allocate: set of possible results.                                       *)
AllocateRes(L, al, s, r) ==
  IF al[s] # NULL THEN
    LET ar == AssignRes(L, al, s, al[s].ips, r)
    IN {[ok |-> ar.ok, al |-> ar.al, ips |-> IF ar.ok THEN al[s].ips ELSE <<>>]}
  ELSE
    LET pinned == FromPools(L, al, PinnedFor(L, s), PinRank, s, r)
        unpinned == FromPools(L, al, UnpinnedAuto(L), ZeroRank, s, r)
    IN {x \in pinned : x.ok} \cup (IF \E x \in pinned : ~x.ok THEN unpinned ELSE {})

(* AllocateFromPool                                                         *)
AllocFromPoolRes(L, al, s, pn, r) ==
  IF al[s] # NULL THEN
    LET ips == al[s].ips
        afam == IF Len(ips) = 1 THEN Fam(ips[1]) ELSE "dual"
    IN IF r.pol # "P" /\ afam # r.fam THEN [ok |-> FALSE, al |-> al, ips |-> <<>>]
       ELSE LET ar == AssignRes(L, al, s, ips, r)
            IN [ok |-> ar.ok, al |-> ar.al, ips |-> IF ar.ok THEN ips ELSE <<>>]
  ELSE IF ~HasPool(L, pn) THEN [ok |-> FALSE, al |-> al, ips |-> <<>>]
  ELSE LET p == PoolNamed(L, pn)
           ips == SelectIPs(FirstFree(al, p, s, r, "v4"), FirstFree(al, p, s, r, "v6"), r)
       IN IF ips = <<>> THEN [ok |-> FALSE, al |-> al, ips |-> <<>>]
          ELSE LET ar == AssignRes(L, al, s, ips, r)
               IN [ok |-> ar.ok, al |-> ar.al, ips |-> IF ar.ok THEN ips ELSE <<>>]

(* AllocateFromPoolForAdditionalFamily(existing ip, pool)                   *)
AllocAdditionalRes(L, al, s, existing, pn, r) ==
  IF ~HasPool(L, pn) THEN [ok |-> FALSE, al |-> al, ip |-> NOADDR]
  ELSE LET p == PoolNamed(L, pn)
           f == IF Fam(existing) = "v4" THEN "v6" ELSE "v4"
           extra == FirstFree(al, p, s, r, f)
       IN IF extra = NOADDR THEN [ok |-> FALSE, al |-> al, ip |-> NOADDR]
          ELSE LET ar == AssignRes(L, al, s, <<existing, extra>>, r)
               IN [ok |-> ar.ok, al |-> ar.al, ip |-> IF ar.ok THEN extra ELSE NOADDR]

(* SetPools(L2): drop what no single pool contains, re-home on rename.      *)
SetPoolsRes(L2, al) ==
  [t \in DOMAIN al |->
     IF al[t] = NULL THEN NULL
     ELSE LET cands == PoolsFor(L2, Range(al[t].ips))
          IN IF cands = {} THEN NULL
             ELSE [al[t] EXCEPT !.pool = (CHOOSE q \in cands : TRUE).name]]

----------------------------------------------------------------------------
(* Properties stated on a memory `al` under layout L                        *)

(* C01: two holders of one address must be allowed to share it.             *)
ShareOK(x, y) == /\ x.sk # "" /\ x.sk = y.sk
                 /\ x.ports \cap y.ports = {}
                 /\ x.bk = y.bk
Exclusive(al) ==
  \A t, u \in DOMAIN al :
     (t # u /\ al[t] # NULL /\ al[u] # NULL /\ Range(al[t].ips) \cap Range(al[u].ips) # {})
        => ShareOK(al[t], al[u])

(* C02 (memory form): every allocation lies in the one pool it names, that  *)
(* pool admits it, one address per family.                                  *)
PlacedMem(L, al, t) ==
  al[t] # NULL =>
     /\ HasPool(L, al[t].pool)
     /\ \A a \in Range(al[t].ips) : Usable(PoolNamed(L, al[t].pool), a)
     /\ Len(al[t].ips) \in {1, 2}
     /\ (Len(al[t].ips) = 2 => Fam(al[t].ips[1]) # Fam(al[t].ips[2]))

(* C11: derived maps of the Go allocator                                    *)
Allocated(al) == {t \in DOMAIN al : al[t] # NULL}
DSharingKeys(al) == [a \in InUse(al) |-> {[sk |-> al[t].sk, bk |-> al[t].bk] : t \in Holders(al, a)}]
DPortsInUse(al) == [a \in InUse(al) |-> UNION {{<<pt, t>> : pt \in al[t].ports} : t \in Holders(al, a)}]
DServicesOnIP(al) == [a \in InUse(al) |-> Holders(al, a)]
DPoolUse(al, pn, f) == {a \in InUse(al) : (f = "any" \/ Fam(a) = f) /\ \E t \in Holders(al, a) : al[t].pool = pn}
DPoolUseCount(al, pn, a) == Cardinality({t \in Holders(al, a) : al[t].pool = pn})

=============================================================================
