//go:build verif

package frr

// C19 harness for internal/bgp/frr: the scripts of spec/DebounceMC.tla are played against
//   target "deb": the real debouncer(...) with the intervals of the script as parameters, and
//   target "sm":  the real NewSessionManager wiring (SyncExtraInfo -> createConfig -> channel ->
//                 debouncer -> generateAndReloadConfigFile -> template -> file -> reloadConfig()),
//                 with only the package variables reloadConfig/debounceTimeout/failureTimeout and
//                 the FRR_CONFIG_FILE environment variable set by the harness.
// The harness holds no oracle; spec/DebounceTrace.tla judges the recorded histories.

import (
	"bytes"
	"fmt"
	"os"
	"path/filepath"
	"regexp"
	"runtime"
	"strconv"
	"sync/atomic"
	"testing"
	"time"

	"github.com/go-kit/log"
	"go.universe.tf/metallb/internal/logging"
	"go.universe.tf/metallb/internal/verifkit"
)

type vdebTarget struct {
	reload chan reloadEvent
}

func vdebConfig(c int) *frrConfig {
	// a fresh value every time: equality must be structural, not by pointer
	return &frrConfig{
		Hostname: strconv.Itoa(c),
		Routers:  []*routerConfig{{MyASN: uint32(64500 + c), RouterID: "10.0.0." + strconv.Itoa(c)}},
	}
}

func (t *vdebTarget) Submit(c int) { t.reload <- reloadEvent{config: vdebConfig(c)} }
func (t *vdebTarget) NoConf()      { t.reload <- reloadEvent{useOld: true} }
func (t *vdebTarget) Close(clean bool) {
	if clean { // a blocked sender would panic on close: leave the goroutines behind instead
		close(t.reload)
	}
}

func vdebMake(env *verifkit.DebEnv) verifkit.DebTarget {
	t := &vdebTarget{reload: make(chan reloadEvent)}
	body := func(cfg *frrConfig) error {
		c := 0
		if cfg != nil {
			c, _ = strconv.Atoi(cfg.Hostname)
		}
		return env.Body(c)
	}
	debouncer(body, t.reload, env.ReloadInterval(), env.RetryInterval(), log.NewNopLogger())
	return t
}

// ---- session manager wiring

type vdebSMTarget struct {
	sm   *sessionManager
	run  string
	base int // debouncer goroutines that were alive before this run's session manager was created
}

// vdebAlive counts the goroutines running the loop of debouncer().  The reload action of the session
// manager ends in a package variable, so a debouncer that is still inside a (slow) reload when its
// run is over would report into the next run: Close waits until it is gone.
func vdebAlive() int {
	buf := make([]byte, 4<<20)
	n := runtime.Stack(buf, true)
	return bytes.Count(buf[:n], []byte("internal/bgp/frr.debouncer.func1("))
}

var vdebLingering atomic.Int64

// Busy: some debouncer goroutine is inside the reload action and running or waiting for a CPU
// (rendering the template, writing the file).  A goroutine parked on a mutex, channel or the
// harness gate is not busy.
func (t *vdebSMTarget) Busy() bool {
	buf := make([]byte, 4<<20)
	n := runtime.Stack(buf, true)
	for _, g := range bytes.Split(buf[:n], []byte("\n\n")) {
		if !bytes.Contains(g, []byte("internal/bgp/frr.debouncer.func1(")) {
			continue
		}
		head := g
		if i := bytes.IndexByte(g, '\n'); i >= 0 {
			head = g[:i]
		}
		for _, st := range []string{"[running", "[runnable", "[syscall", "[IO wait"} {
			if bytes.Contains(head, []byte(st)) {
				return true
			}
		}
	}
	return false
}

// the run's name is part of every configuration: a reload action that finds another run's
// configuration in the file was not caused by this run (the reload action is a package variable)
func (t *vdebSMTarget) Submit(c int) {
	if err := t.sm.SyncExtraInfo(fmt.Sprintf("! verif-config-%s-%d.", t.run, c)); err != nil {
		panic(err)
	}
}
func (t *vdebSMTarget) NoConf() { t.sm.reloadConfig <- reloadEvent{useOld: true} } // what validateReload sends
func (t *vdebSMTarget) Close(clean bool) {
	if clean {
		close(t.sm.reloadConfig)
	}
	for t0 := time.Now(); vdebAlive() > t.base; time.Sleep(2 * time.Millisecond) {
		if time.Since(t0) > 3*time.Second {
			vdebLingering.Add(1)
			break
		}
	}
}

var vdebMarker = regexp.MustCompile(`verif-config-(\S+)-(\d+)\.`)
var vdebForeign atomic.Int64

func vdebMakeSM(dir string) func(env *verifkit.DebEnv) verifkit.DebTarget {
	return func(env *verifkit.DebEnv) verifkit.DebTarget {
		file := filepath.Join(dir, env.Script.ID+".conf")
		os.Setenv("FRR_CONFIG_FILE", file)
		debounceTimeout = env.ReloadInterval()
		failureTimeout = env.RetryInterval()
		reloadConfig = func() error {
			c, run := 0, env.Script.ID
			if b, err := os.ReadFile(file); err == nil {
				if m := vdebMarker.FindSubmatch(b); m != nil {
					run = string(m[1])
					c, _ = strconv.Atoi(string(m[2]))
				}
			}
			if run != env.Script.ID || env.Over() {
				vdebForeign.Add(1)
				env.Disturb()
				return nil
			}
			return env.Body(c)
		}
		base := vdebAlive()
		sm := NewSessionManager(log.NewNopLogger(), logging.LevelInfo).(*sessionManager)
		return &vdebSMTarget{sm: sm, run: env.Script.ID, base: base}
	}
}

func TestVerifDebounce(t *testing.T) {
	scripts := verifkit.ReadDebScripts()
	out := verifkit.NewObsWriter()
	defer out.Close()
	var deb, sm []verifkit.DebScript
	for _, sc := range scripts {
		switch sc.Target {
		case "deb":
			deb = append(deb, sc)
		case "sm":
			sm = append(sm, sc)
		}
	}
	verifkit.DebRunAll(deb, out, 16, func(verifkit.DebScript) func(env *verifkit.DebEnv) verifkit.DebTarget { return vdebMake })
	// the session manager reads package variables and the environment: one run at a time
	dir := t.TempDir()
	oldReload, oldDeb, oldFail := reloadConfig, debounceTimeout, failureTimeout
	verifkit.DebRunAll(sm, out, 1, func(verifkit.DebScript) func(env *verifkit.DebEnv) verifkit.DebTarget { return vdebMakeSM(dir) })
	reloadConfig, debounceTimeout, failureTimeout = oldReload, oldDeb, oldFail
	_ = os.WriteFile(os.Getenv("VERIF_OBS")+".meta", []byte(fmt.Sprintf("{\"foreign_reload_calls\": %d, \"lingering_debouncers\": %d}\n", vdebForeign.Load(), vdebLingering.Load())), 0o644)
	t.Logf("verif: %d debouncer runs, %d session-manager runs, %d lines, %d reload calls that belonged to no current run",
		len(deb), len(sm), out.N, vdebForeign.Load())
}
