----------------------------- MODULE ElectionMC -----------------------------
(***************************************************************************)
(* Roles A and B for the election family (C04, C10, C12).                   *)
(*                                                                         *)
(* Role B: TLC enumerates a bounded product of views (Mode "l2" / "bgp"),   *)
(* the two-node duels (Mode "duel") or (base view, perturbed view) pairs    *)
(* (Mode "pair") and prints one JSON record per input; the Go harness runs  *)
(* the real controllers of every node on each of them.                      *)
(* Role A, same run: on every generated view TLC checks that the decision   *)
(* procedure as the code is structured (Election!CodeL2Announces /          *)
(* CodeBGPAnnounces) agrees with the declarative property for EVERY rank;   *)
(* Mode "lemma" checks the C12 lemmas for every rank over NodeNames.        *)
(*                                                                         *)
(* The enumeration is split in two stages so that TLC's workers share it.   *)
(***************************************************************************)
EXTENDS Election, Json

CONSTANTS Mode,        \* "l2" | "bgp" | "duel" | "pair" | "lemma" | "seq" | "cfg"
          NodeNames,   \* node names of the views
          NodesSet,    \* set of [NodeNames -> flags] functions
          MlSet, IgnSet, EtpSet,
          AdvSet,      \* set of sequences of node sets
          EpsSplit,    \* the endpoint layouts are EpsOf(p), p \in EpsSplit (the split only spreads
          EpsOf(_),    \* the enumeration over TLC's workers)
          AddrPairs,   \* sequence of <<v4 address, v6 address>> (abstract addresses of Domain.tla)
          PairIndep    \* pair mode: perturbed view draws its own policy / memberlist mode

VARIABLES stage, x
vars == <<stage, x>>

T == TRUE
F == FALSE

----------------------------------------------------------------------------
(* node flags *)
Fl(k, a, u, e) == [known |-> k, alive |-> a, unavail |-> u, excl |-> e]
FOk       == Fl(T, T, F, F)
FDead     == Fl(T, F, F, F)     \* known node, speaker not in the memberlist
FGhost    == Fl(F, T, F, F)     \* live speaker on a node the speakers have no Node object for
FNone     == Fl(F, F, F, F)
FUnav     == Fl(T, T, T, F)
FExcl     == Fl(T, T, F, T)
FBoth     == Fl(T, T, T, T)
FDeadExcl == Fl(T, F, F, T)
FDeadUnav == Fl(T, F, T, F)
FDeadBoth == Fl(T, F, T, T)

Flags10 == {FOk, FDead, FGhost, FNone, FUnav, FExcl, FBoth, FDeadExcl, FDeadUnav, FDeadBoth}
Flags7  == {FOk, FDead, FGhost, FNone, FUnav, FExcl, FDeadExcl}
Flags5  == {FOk, FGhost, FUnav, FExcl, FBoth}
Flags3  == {FOk, FDead, FExcl}
Flags2  == {FOk, FDead}

N2 == {"n1", "n2"}
N3 == {"n1", "n2", "n3"}
N4 == {"n1", "n2", "n3", "n4"}

Nodes3F7  == [N3 -> Flags7]
Nodes3F10 == [N3 -> Flags10]
Nodes3F2  == [N3 -> Flags2]
Nodes4F7  == [N4 -> Flags7]
Nodes4F2  == [N4 -> Flags2]
(* BGP: the deciding node n1 takes every flag combination, n2 two of them   *)
Nodes2Bgp == {[n \in N2 |-> IF n = "n1" THEN f ELSE g] : f \in Flags5, g \in {FOk, FUnav}}
Nodes2Ok  == {[n \in N2 |-> FOk]}

----------------------------------------------------------------------------
(* advertisement node selections *)
AdvCat3 == { <<>>, <<N3>>, <<{"n1", "n2"}>>, <<{"n3"}>>, <<{"n1"}, {"n2", "n3"}>>,
             <<{"n1", "n2"}, {"n2", "n3"}>> }
AdvCat4 == { <<>>, <<N4>>, <<{"n1", "n2", "n3"}>>, <<{"n4"}>>, <<{"n1"}, {"n2", "n3", "n4"}>>,
             <<{"n1", "n2"}, {"n2", "n3"}>>, <<{"n1", "n4"}, {}>>, <<{"n2", "n3"}, {"n3", "n4"}>> }
AdvTwo3 == { <<N3>>, <<{"n1", "n2"}>> }
AdvOne3 == { <<{"n1", "n2"}, {"n3"}>> }
AdvTwo4 == { <<N4>>, <<{"n1", "n2"}, {"n4"}>> }
AdvFull(U) == {<<A>> : A \in SUBSET U} \cup {<<A, B>> : A \in SUBSET U, B \in SUBSET U}
AdvBgp == { <<>>, <<{"n1"}>>, <<{"n2"}>>, <<{"n2"}, {"n1", "n2"}>>, <<{}, {"n1"}>> }
AdvBgpAll == { <<N2>> }

----------------------------------------------------------------------------
(* endpoint layouts *)
Cd(r, s) == [ready |-> r, serving |-> s]
Cond9 == {Cd(r, s) : r \in {"nil", "T", "F"}, s \in {"nil", "T", "F"}}
Cond5 == {Cd("nil", "nil"), Cd("T", "F"), Cd("F", "T"), Cd("F", "nil"), Cd("F", "F")}
Cond4 == {Cd("nil", "nil"), Cd("T", "F"), Cd("F", "T"), Cd("F", "nil")}
Cond2 == {Cd("T", "T"), Cd("F", "F")}

Ent(as, n, c) == [addrs |-> as, node |-> n, ready |-> c.ready, serving |-> c.serving]

(* layer 2: the endpoint address is irrelevant *)
L2Entries(nodes, conds) == {Ent(<<"a">>, n, c) : n \in nodes, c \in conds}

UpTo2(ES) == {<<>>, << <<>> >>}
             \cup {<< <<e>> >> : e \in ES}
             \cup {<< <<e, f>> >> : e \in ES, f \in ES}
             \cup {<< <<e>>, <<f>> >> : e \in ES, f \in ES}
Exactly3(ES) == {<< <<e, f, g>> >> : e \in ES, f \in ES, g \in ES}
                \cup {<< <<e>>, <<f, g>> >> : e \in ES, f \in ES, g \in ES}
                \cup {<< <<e, f>>, <<g>> >> : e \in ES, f \in ES, g \in ES}
Exactly4(ES) == {<< <<e, f>>, <<g, h>> >> : e \in ES, f \in ES, g \in ES, h \in ES}
                \cup {<< <<e, f, g, h>> >> : e \in ES, f \in ES, g \in ES, h \in ES}
UpTo1(ES) == {<<>>, << <<>> >>} \cup {<< <<e>> >> : e \in ES}

OkC == Cd("T", "T")
EpsCat3 == { << <<Ent(<<"a">>, "n1", Cd("F", "F"))>> >>,
             << <<Ent(<<"a">>, "", OkC)>> >>,
             << <<Ent(<<"a">>, "n1", Cd("nil", "nil"))>>, <<Ent(<<"b">>, "n3", Cd("F", "T"))>> >>,
             << <<Ent(<<"a">>, "n1", OkC), Ent(<<"b">>, "n2", OkC), Ent(<<"c">>, "n3", OkC), Ent(<<"d">>, "nx", OkC)>> >> }
EpsCat4 == { << <<Ent(<<"a">>, "n1", Cd("F", "F"))>> >>,
             << <<Ent(<<"a">>, "", OkC)>> >>,
             << <<Ent(<<"a">>, "n1", Cd("nil", "nil"))>>, <<Ent(<<"b">>, "n4", Cd("F", "T"))>> >>,
             << <<Ent(<<"a">>, "n1", OkC), Ent(<<"b">>, "n2", OkC), Ent(<<"c">>, "n3", OkC), Ent(<<"e">>, "n4", OkC),
                  Ent(<<"d">>, "nx", OkC)>> >> }

EpsL2Cat3(p)  == EpsCat3
EpsL2Cat4(p)  == EpsCat4
EpsL2Two3(p)  == UpTo2(L2Entries(N3 \cup {"nx", ""}, Cond4))
EpsL2Two4(p)  == UpTo2(L2Entries(N4 \cup {"nx", ""}, Cond4))
EpsL2Three(p) == Exactly3(L2Entries(N3 \cup {"nx", ""}, Cond2))

(* BGP: every address lives on one node (nodeOf), entries carry one or two  *)
(* addresses; the layouts violating OneNodePerAddr are filtered out         *)
BgpEntries(al, conds, nodeOf) == {Ent(as, nodeOf[as[1]], c) : as \in al, c \in conds}
NodeOfs == [{"a", "b"} -> {"n1", "n2", ""}]
A1 == {<<"a">>, <<"b">>}
A2 == {<<"a">>, <<"b">>, <<"a", "b">>, <<"b", "a">>}
BgpLayouts(shape(_), al, conds, nf) == {l \in shape(BgpEntries(al, conds, nf)) : OneNodePerAddr(l)}
EpsBgpOne(nf)    == BgpLayouts(UpTo1, A1, Cond5, nf)
EpsBgpTwo9(nf)   == BgpLayouts(UpTo2, A1, Cond9, nf)
EpsBgpTwo5(nf)   == BgpLayouts(UpTo2, A1, Cond5, nf)
EpsBgpTwoM(nf)   == BgpLayouts(UpTo2, A2, Cond2, nf)
EpsBgpThree(nf)  == BgpLayouts(Exactly3, A1, Cond5, nf)
EpsBgpThree9(nf) == BgpLayouts(Exactly3, A1, Cond9, nf)
EpsBgpThreeM(nf) == BgpLayouts(Exactly3, A2, Cond2, nf)
EpsBgpFour(nf)   == BgpLayouts(Exactly4, A1, Cond4, nf)

NoSplit == {0}
Pairs1 == << <<0, 100>> >>
Pairs2 == << <<0, 100>>, <<3, 101>> >>
Pairs3 == << <<0, 100>>, <<3, 101>>, <<1, 102>> >>

----------------------------------------------------------------------------
(* C12 scenarios: a view whose layer-2 eligible set is exactly E, the other *)
(* nodes being ineligible for the reason `c`                                *)
Causes == {"dead", "unsel", "unavail", "excl", "noep", "mix"}

CauseOf(c, n) ==
  IF c # "mix" THEN c
  ELSE CASE n = "n1" -> "dead" [] n = "n2" -> "unsel" [] n = "n3" -> "unavail" [] OTHER -> "excl"

MkView(E, c, etp, ml) ==
  LET why(n) == LET w == CauseOf(c, n) IN IF w = "noep" /\ etp # "Local" THEN "dead" ELSE w
      out == NodeNames \ E
      fl(n) == IF n \in E THEN FOk
               ELSE CASE why(n) = "dead"    -> (IF ml THEN FDead ELSE FGhost)
                      [] why(n) = "unavail" -> FUnav
                      [] why(n) = "excl"    -> FExcl
                      [] OTHER              -> FOk
      sel == {n \in NodeNames : n \in E \/ why(n) # "unsel"}
      odd == {"n1", "n3"}
      ent(n) == Ent(<<n>>, n, IF n \in out /\ why(n) = "noep" THEN Cd("F", "F") ELSE Cd("T", "nil"))
      order == <<"n1", "n2", "n3", "n4">>
      slice(S) == LET q == SelectSeq(order, LAMBDA n : n \in S) IN [k \in DOMAIN q |-> ent(q[k])]
  IN [nodes |-> [n \in NodeNames |-> fl(n)], ml |-> ml, ign |-> F,
      advs |-> <<sel \cap odd, sel \ odd>>, etp |-> etp,
      eps |-> << slice(NodeNames \cap odd), slice(NodeNames \ odd) \o <<Ent(<<"z">>, "", Cd("T", "T"))>> >>]


----------------------------------------------------------------------------
(* Sequences of views (history dependence, C04 / C12 / C10).  One sequence  *)
(* keeps the policy, the memberlist mode and the ignore flag and varies one *)
(* dimension d: S is the set of nodes that are "fine" in that dimension.    *)
(*   dead     not in the memberlist (needs ml)                              *)
(*   unsel    not selected by any advertisement (a configuration change)    *)
(*   unavail  NetworkUnavailable                                            *)
(*   excl     exclude-from-external-load-balancers label                    *)
(*   noep     no serving endpoint on the node (and none elsewhere)          *)
(*   unavailx NetworkUnavailable on nodes that all carry the exclude label  *)
(*   mix      n1: dead, n2: unsel, n3: noep, n4: excl                       *)
(* Every node stays known: a speaker never forgets a Node object.           *)
SeqDims == {"dead", "unsel", "unavail", "excl", "noep", "unavailx", "mix"}

SeqCause(d, n) ==
  IF d # "mix" THEN d
  ELSE CASE n = "n1" -> "dead" [] n = "n2" -> "unsel" [] n = "n3" -> "noep" [] OTHER -> "excl"

SeqView(S, d, etp, ml, ign) ==
  LET why(n) == SeqCause(d, n)
      bad(n) == n \notin S
      fl(n) == Fl(T, ~(bad(n) /\ why(n) = "dead"),
                  bad(n) /\ why(n) \in {"unavail", "unavailx"},
                  (bad(n) /\ why(n) = "excl") \/ why(n) = "unavailx")
      sel == {n \in NodeNames : ~(bad(n) /\ why(n) = "unsel")}
      odd == {"n1", "n3"}
      ent(n) == Ent(<<n>>, n, IF bad(n) /\ why(n) = "noep" THEN Cd("F", "F") ELSE Cd("T", "nil"))
      order == <<"n1", "n2", "n3", "n4">>
      slice(Q) == LET q == SelectSeq(order, LAMBDA n : n \in Q) IN [k \in DOMAIN q |-> ent(q[k])]
  IN [nodes |-> [n \in NodeNames |-> fl(n)], ml |-> ml, ign |-> ign,
      advs |-> <<sel \cap odd, sel \ odd>>, etp |-> etp,
      eps |-> << slice(NodeNames \cap odd), slice(NodeNames \ odd) >>]

SeqCombos ==
  {c \in [d : SeqDims, etp : EtpSet, ml : MlSet, ign : IgnSet] :
     /\ (c.d \in {"dead", "mix"} => c.ml)
     /\ (c.ign => c.d \in {"excl", "unavailx", "mix"})}

----------------------------------------------------------------------------
(* Configurations as custom resources (C10 / C04 through config.For).       *)
(* Pool p1 (label tier=gold) holds the Service address, p2 (tier=silver)    *)
(* does not.  An advertisement names pools, selects pools by label, selects *)
(* nodes by their zone label; all other attributes are identical.           *)
CfgZones == { [n \in NodeNames |-> IF n = "n2" THEN "b" ELSE "a"], [n \in NodeNames |-> "a"] }
CfgAdvSpecs == [pools : SUBSET {"p1", "p2"}, psel : {"", "gold", "silver"}, nsel : {<<>>, <<"a">>, <<"b">>, <<"a", "b">>, <<"b", "a">>}]

CfgSelectsP1(a) == "p1" \in a.pools \/ a.psel = "gold" \/ (a.pools = {} /\ a.psel = "")
CfgNodes(a, zones) == IF a.nsel = <<>> THEN NodeNames ELSE {n \in NodeNames : zones[n] \in ERange(a.nsel)}

(* the advertisements of p1 as node sets: what the statement calls "an      *)
(* advertisement of the address's pool selects that node"                   *)
CfgResolve(advs, zones) ==
  LET q == SelectSeq(advs, CfgSelectsP1) IN [k \in DOMAIN q |-> CfgNodes(q[k], zones)]

CfgView(advs, zones) ==
  [nodes |-> [n \in NodeNames |-> FOk], ml |-> F, ign |-> F, advs |-> CfgResolve(advs, zones), etp |-> "Cluster",
   eps |-> << <<Ent(<<"a">>, "n1", Cd("T", "T"))>> >>]

----------------------------------------------------------------------------
Init == stage = 0 /\ x = [none |-> TRUE]

Rec(kind, payload) == [kind |-> kind, pairs |-> AddrPairs] @@ payload

ViewNext ==
  \/ /\ stage = 0 /\ stage' = 1
     /\ x' \in [nodes : NodesSet, advs : AdvSet, ml : MlSet, split : EpsSplit]
  \/ /\ stage = 1 /\ stage' = 2
     /\ x' \in {[nodes |-> x.nodes, advs |-> x.advs, ml |-> x.ml, ign |-> g, etp |-> p, eps |-> l] :
                   g \in IgnSet, p \in EtpSet, l \in EpsOf(x.split)}
     /\ PrintT(ToJson(Rec(Mode, [view |-> x'])))

DuelNext ==
  /\ stage = 0 /\ stage' = 2
  /\ x' \in {MkView({n, m}, c, p, ml) : n \in NodeNames, m \in NodeNames, c \in Causes, p \in EtpSet, ml \in MlSet}
  /\ Cardinality(L2Eligible(x')) = 2
  /\ PrintT(ToJson(Rec("duel", [view |-> x'])))

PairNext ==
  \/ /\ stage = 0 /\ stage' = 1
     /\ x' \in [E : SUBSET NodeNames, c : Causes, etp : EtpSet, ml : MlSet]
  \/ /\ stage = 1 /\ stage' = 2
     /\ x' \in {[base |-> MkView(x.E, x.c, x.etp, x.ml), pert |-> MkView(E2, c2, p2, ml2)] :
                   E2 \in SUBSET NodeNames, c2 \in Causes,
                   p2 \in (IF PairIndep THEN EtpSet ELSE {x.etp}), ml2 \in (IF PairIndep THEN MlSet ELSE {x.ml})}
     /\ PrintT(ToJson(Rec("pair", x')))

LemmaNext ==
  /\ stage = 0 /\ stage' = 2
  /\ x' \in Ranks(NodeNames)

(* one step changes one or two nodes *)
Near(S) == {Q \in SUBSET NodeNames : Cardinality((S \ Q) \cup (Q \ S)) \in {1, 2}}

SeqNext ==
  \/ /\ stage = 0 /\ stage' = 1
     /\ x' \in {[c |-> c, S1 |-> S1] : c \in SeqCombos, S1 \in SUBSET NodeNames}
  \/ /\ stage = 1 /\ stage' = 2
     /\ x' \in UNION {{[meta |-> x.c,
                          views |-> << SeqView(x.S1, x.c.d, x.c.etp, x.c.ml, x.c.ign),
                                       SeqView(S2, x.c.d, x.c.etp, x.c.ml, x.c.ign),
                                       SeqView(S3, x.c.d, x.c.etp, x.c.ml, x.c.ign) >>] : S3 \in Near(S2)} : S2 \in Near(x.S1)}
     /\ PrintT(ToJson(Rec("seq", x')))

CfgNext ==
  \/ /\ stage = 0 /\ stage' = 1
     /\ x' \in [zones : CfgZones, a1 : CfgAdvSpecs]
  \/ /\ stage = 1 /\ stage' = 2
     /\ x' \in {[cfg |-> [zones |-> x.zones, advs |-> advs], view |-> CfgView(advs, x.zones)] :
                   advs \in {<<x.a1>>} \cup {<<x.a1, a2>> : a2 \in CfgAdvSpecs}}
     /\ PrintT(ToJson(Rec("cfg", x')))

Next == CASE Mode \in {"l2", "bgp"} -> ViewNext
          [] Mode = "seq" -> SeqNext
          [] Mode = "cfg" -> CfgNext
          [] Mode = "duel" -> DuelNext
          [] Mode = "pair" -> PairNext
          [] OTHER -> LemmaNext

Spec == Init /\ [][Next]_vars

----------------------------------------------------------------------------
(* Role A *)

(* the layer-2 decision procedure, as coded, yields exactly the property's  *)
(* announcer set - for every possible election order                        *)
InvL2 ==
  (Mode = "l2" /\ stage = 2) =>
     \A r \in Ranks(NodeNames) : {n \in NodeNames : CodeL2Announces(x, n, r)} = Winner(x, r)

(* the BGP decision procedure, as coded, is the iff of the statement        *)
InvBGP ==
  (Mode = "bgp" /\ stage = 2) =>
     /\ OneNodePerAddr(x.eps)
     /\ \A n \in NodeNames : CodeBGPAnnounces(x, n) <=> BGPEligible(x, n)

PairRanks == {r \in Ranks(NodeNames) : r["n1"] < r["n2"] /\ r["n3"] < r["n4"]}

(* sequences and configurations: the decision procedures have no memory, so *)
(* every view of a sequence is judged like a single view                    *)
InvSeq ==
  (Mode = "seq" /\ stage = 2) =>
     \A j \in DOMAIN x.views : \A r \in (IF Cardinality(NodeNames) = 4 THEN PairRanks ELSE Ranks(NodeNames)) :
        /\ {n \in NodeNames : CodeL2Announces(x.views[j], n, r)} = Winner(x.views[j], r)
        /\ \A n \in NodeNames : CodeBGPAnnounces(x.views[j], n) <=> BGPEligible(x.views[j], n)

InvCfg ==
  (Mode = "cfg" /\ stage = 2) =>
     /\ \A n \in NodeNames : CodeBGPAnnounces(x.view, n) <=> BGPEligible(x.view, n)
     /\ \A r \in Ranks(NodeNames) : {n \in NodeNames : CodeL2Announces(x.view, n, r)} = Winner(x.view, r)

(* the scenario constructor does what it says *)
InvMk ==
  /\ (Mode = "pair" /\ stage = 1) => L2Eligible(MkView(x.E, x.c, x.etp, x.ml)) = x.E
  /\ (Mode = "duel" /\ stage = 2) => Cardinality(L2Eligible(x)) = 2

(* C12 for every election order over NodeNames *)
InvLemma ==
  (Mode = "lemma" /\ stage = 2) =>
     /\ LemmaRemove(NodeNames, x)
     /\ LemmaAdd(NodeNames, x)
     /\ LemmaNoSwap(NodeNames, x)

(* C04 / C12 at design level on the pair scenarios (a quarter of the orders; *)
(* InvLemma covers every order)                                             *)
InvPairModel ==
  (Mode = "pair" /\ stage = 2) =>
     \A r \in PairRanks :
        LET wb == {n \in NodeNames : CodeL2Announces(x.base, n, r)}
            wp == {n \in NodeNames : CodeL2Announces(x.pert, n, r)}
            eb == L2Eligible(x.base)
            ep == L2Eligible(x.pert)
        IN /\ wb = Winner(x.base, r) /\ wp = Winner(x.pert, r)
           /\ ((ep \subseteq eb /\ wb \subseteq ep) => wp = wb)
           /\ (eb \subseteq ep => wp \subseteq (wb \cup (ep \ eb)))
           /\ ((wb \cup wp) \subseteq (eb \cap ep) => wb = wp)
=============================================================================
