//go:build verif

package frr

// C14 harness: every scenario TLC printed from spec/FRRMC.tla (a set of sessions with their
// advertisements + several creation orders) is played against the real sessionManager
// (NewSession / Set / Close / SyncBFDProfiles -> createConfig -> reloadEvent), the configuration
// that reached the reload channel last is rendered with the real templateConfig, and the text is
// tokenized (frrcfg_tokenizer.go).  One observation per (scenario, order).  No oracle here.

import (
	"crypto/sha256"
	"encoding/hex"
	"fmt"
	"os"
	"sync"
	"testing"

	"github.com/go-kit/log"
	"go.universe.tf/metallb/internal/bgp"
	metallbconfig "go.universe.tf/metallb/internal/config"
	"go.universe.tf/metallb/internal/logging"
	"go.universe.tf/metallb/internal/verifkit"
)

type vFrrObs struct {
	ID       string                `json:"id"`
	Ord      int                   `json:"ord"`
	Mode     string                `json:"mode"`
	Node     string                `json:"node"`
	Same     int                   `json:"same"` // > 0: the text is byte-identical to that of order Same (sessions, prog omitted)
	Sessions []verifkit.FrrSession `json:"sessions,omitempty"`
	Created  []bool                `json:"created"` // per session: NewSession succeeded and not closed
	Errs     []string              `json:"errs"`
	Sha      string                `json:"sha"`
	Len      int                   `json:"len"`
	Prog     *vFrrProgram          `json:"prog,omitempty"`
	Text     string                `json:"text,omitempty"`
}

func vFrrHostname() (string, error) { return "verifhost", nil }

// vFrrPlay runs one creation order and returns the rendered text.
func vFrrPlay(sc verifkit.FrrScenario, ops []verifkit.FrrOp) (string, []string, []bool) {
	errs := []string{}
	// the fields NewSessionManager fills; the reload channel is drained here instead of by the
	// debouncer (no timers, no file, no reloader): the last event is what would be written
	sm := &sessionManager{
		sessions:     map[string]*session{},
		bfdProfiles:  []BFDProfile{},
		reloadConfig: make(chan reloadEvent),
		logLevel:     logLevelToFRR(logging.LevelInfo),
	}
	var last *frrConfig
	var wg sync.WaitGroup
	wg.Add(1)
	go func() {
		defer wg.Done()
		for ev := range sm.reloadConfig {
			if !ev.useOld {
				last = ev.config
			}
		}
	}()
	l := log.NewNopLogger()
	profiles := map[string]*metallbconfig.BFDProfile{}
	for _, s := range sc.Sessions {
		if s.Bfd != "" {
			profiles[s.Bfd] = &metallbconfig.BFDProfile{Name: s.Bfd}
		}
	}
	if len(profiles) > 0 {
		if err := sm.SyncBFDProfiles(profiles); err != nil {
			errs = append(errs, "bfd: "+err.Error())
		}
	}
	live := map[int]bgp.Session{}
	for _, op := range ops {
		s := sc.Sessions[op.S-1]
		switch op.Op {
		case "new":
			sess, err := sm.NewSession(l, verifkit.FrrParams(s, sc.Node))
			if err != nil {
				errs = append(errs, fmt.Sprintf("new %s: %v", s.K, err))
				continue
			}
			live[op.S] = sess
		case "set", "preset":
			sess, ok := live[op.S]
			if !ok {
				errs = append(errs, fmt.Sprintf("%s %s: no session", op.Op, s.K))
				continue
			}
			advs := verifkit.FrrAdvs(s.Advs, op.Advs)
			if op.Op == "preset" {
				advs = verifkit.FrrAdvs(s.Pre, verifkit.FrrAllIdx(len(s.Pre)))
			}
			if err := sess.Set(advs...); err != nil {
				errs = append(errs, fmt.Sprintf("%s %s: %v", op.Op, s.K, err))
			}
		case "close":
			if sess, ok := live[op.S]; ok {
				if err := sess.Close(); err != nil {
					errs = append(errs, fmt.Sprintf("close %s: %v", s.K, err))
				}
				delete(live, op.S)
			}
		default:
			panic("unknown op " + op.Op)
		}
	}
	close(sm.reloadConfig)
	wg.Wait()
	created := []bool{}
	for i := range sc.Sessions {
		_, ok := live[i+1]
		created = append(created, ok)
	}
	if last == nil {
		return "", append(errs, "no configuration reached the reload channel"), created
	}
	text, err := templateConfig(last)
	if err != nil {
		errs = append(errs, "template: "+err.Error())
	}
	return text, errs, created
}

func TestVerifFrrcfg(t *testing.T) {
	scs := verifkit.FrrReadScenarios()
	out := verifkit.NewObsWriter()
	defer out.Close()
	osHostname = vFrrHostname
	os.Unsetenv("FRR_LOGGING_LEVEL")
	withText := verifkit.FrrWithText()
	verifkit.FrrForEach(scs, out, func(sc verifkit.FrrScenario, b *verifkit.Block) {
		first := map[string]int{}
		for k, ops := range sc.Orders {
			text, errs, created := vFrrPlay(sc, ops)
			sum := sha256.Sum256([]byte(text))
			o := vFrrObs{ID: sc.ID, Ord: k + 1, Mode: "frr", Node: sc.Node, Created: created, Errs: errs,
				Sha: hex.EncodeToString(sum[:]), Len: len(text)}
			if f, ok := first[text]; ok {
				o.Same = f // compression only: the driver copies sessions and program from that line
			} else {
				first[text] = k + 1
				o.Sessions, o.Prog = sc.Sessions, vFrrTokenize(text)
				if withText {
					o.Text = text
				}
			}
			b.Add(o)
		}
	})
	t.Logf("verif: %d scenarios, %d observations", len(scs), out.N)
}
