"""Speaker family (C05 BGP routes per peer, C09 speaker convergence):
spec/Speaker.tla + spec/SpeakerMC.tla (roles A and B), harness/speaker/spk_test.go (replay on the real
speaker controller through the real service / node / configuration reconcilers), spec/SpeakerTrace.tla
(role C)."""
import hashlib
import json
import os

import vlib

PROPS = ["C05", "C09"]

# per property and tier: list of (cfg, mode, sample); sample = number of transitions taken as targets
# of the walks (None = every transition of the bounded graph is executed)
CONFIGS = {
    "C05": {"quick": [("SpeakerMC_bgp.cfg", "edges", 3000), ("SpeakerMC_bgp2.cfg", "edges", 3000),
                      ("SpeakerMC_bgpeq.cfg", "edges", 3000), ("SpeakerMC_bgpflap.cfg", "edges", None),
                      ("SpeakerMC_bgpfault.cfg", "edges", None), ("SpeakerMC_bgp_sim.cfg", "sim", None)],
            "thorough": [("SpeakerMC_bgp.cfg", "edges", None), ("SpeakerMC_bgp2.cfg", "edges", None),
                         ("SpeakerMC_bgpeq.cfg", "edges", None), ("SpeakerMC_bgpflap.cfg", "edges", None),
                         ("SpeakerMC_bgpfault.cfg", "edges", None), ("SpeakerMC_bgpfault2.cfg", "edges", 100000),
                         ("SpeakerMC_bgp3.cfg", "edges", 100000),
                         ("SpeakerMC_bgp_sim.cfg", "sim", None)]},
    "C09": {"quick": [("SpeakerMC_conv.cfg", "edges", 3000), ("SpeakerMC_convml.cfg", "edges", 2500),
                      ("SpeakerMC_convdual.cfg", "edges", 3000), ("SpeakerMC_convflap.cfg", "edges", None),
                      ("SpeakerMC_convign.cfg", "edges", None), ("SpeakerMC_convboth.cfg", "edges", None),
                      ("SpeakerMC_convscope.cfg", "edges", None), ("SpeakerMC_convv6first.cfg", "edges", None),
                      ("SpeakerMC_conv_sim.cfg", "sim", None)],
            "thorough": [("SpeakerMC_conv.cfg", "edges", None), ("SpeakerMC_convml.cfg", "edges", None),
                         ("SpeakerMC_convdual.cfg", "edges", None), ("SpeakerMC_convflap.cfg", "edges", None),
                         ("SpeakerMC_convign.cfg", "edges", None), ("SpeakerMC_convboth.cfg", "edges", None),
                         ("SpeakerMC_convscope.cfg", "edges", None), ("SpeakerMC_convv6first.cfg", "edges", None),
                         ("SpeakerMC_conv3.cfg", "edges", 100000),
                         ("SpeakerMC_conv_sim.cfg", "sim", None), ("SpeakerMC_convml_sim.cfg", "sim", None),
                         ("SpeakerMC_convign_sim.cfg", "sim", None)]},
}
# side entry (run_side): small configurations whose observations also decide C13 / C10 statements
SIDE_CONFIGS = {
    "C13": {"quick": [("SpeakerMC_convscope.cfg", "edges", None), ("SpeakerMC_convv6first.cfg", "edges", None)],
            "thorough": [("SpeakerMC_convscope.cfg", "edges", None), ("SpeakerMC_convv6first.cfg", "edges", None),
                         ("SpeakerMC_convboth.cfg", "edges", None), ("SpeakerMC_convdual.cfg", "edges", None)]},
    "C10": {"quick": [("SpeakerMC_convign.cfg", "edges", 4000), ("SpeakerMC_bgpflap.cfg", "edges", None)],
            "thorough": [("SpeakerMC_convign.cfg", "edges", None), ("SpeakerMC_bgpflap.cfg", "edges", None),
                         ("SpeakerMC_bgp.cfg", "edges", 30000)]},
}
SIM = {"quick": {"num": 250, "depth": 30}, "thorough": {"num": 3000, "depth": 40}}


def mapping():
    m = vlib.harness_mapping("speaker", "speaker")
    exp = os.path.join(vlib.HARNESS, "export")
    m["internal/layer2/zz_verif_export.go"] = os.path.join(exp, "layer2_export.go")
    m["internal/k8s/controllers/zz_verif_export.go"] = os.path.join(exp, "controllers_export.go")
    m["internal/k8s/controllers/zz_verif_spk_export.go"] = os.path.join(exp, "controllers_spk_export.go")
    return m


def catalog_dump(chk):
    res = vlib.tlc(chk.work, "SpeakerDump", "SpeakerDump.cfg", workers=1, timeout=120)
    if not res.json:
        raise vlib.Inconclusive("SpeakerDump produced nothing: " + res.out[-800:])
    path = os.path.join(chk.work, "spkcat.json")
    with open(path, "w") as fh:
        json.dump(res.json[0], fh)
    return path


def is_initial(st):
    m = st["mem"]
    return (st["nfault"] == 0 and not m["fs"] and not m["fset"] and not st["gate"] and st["cfgQ"] and not st["reload"] and sorted(st["nodeQ"]) == sorted(st["cl"]["nodes"])
            and m["cfg"].get("null") and m["rcfg"].get("null") and all(v.get("null") for v in m["seen"].values())
            and sorted(st["svcQ"]) == sorted(s for s, v in st["cl"]["svcs"].items() if not v.get("null")))


def generate(chk, cfg, timeout=1700):
    """Roles A + B in one TLC run: every generated transition (Emit), the initial state, and one
    line per state that violates a design-level property (the exploration goes on).  States are
    identified by a digest of their canonical JSON."""
    import hashlib
    edges, inits, mviol, initkeys = [], [], {}, []

    def key(st):
        return hashlib.md5(vlib.canon(st).encode()).hexdigest()

    def sink(o):
        if "pre" in o:
            k = key(o["pre"])
            edges.append((k, o["act"], key(o["post"])))
            if o["n"] == 0 and not initkeys and is_initial(o["pre"]):
                initkeys.append(k)
        elif "init" in o:
            inits.append(o["init"])
        elif "mviol" in o:
            mviol[o["mviol"]] = mviol.get(o["mviol"], 0) + 1

    res = vlib.tlc(chk.work, "SpeakerMC", cfg, workers=16, timeout=timeout, heap="12g", json_sink=sink)
    chk.add_model_run(cfg, res)
    if res.error or res.violated:
        raise vlib.Inconclusive("TLC %s: %s %s\n%s" % (cfg, res.error, res.violated, res.out[-1500:]))
    if not edges or not inits:
        raise vlib.Inconclusive("no edges / initial state from %s: %s" % (cfg, res.out[-800:]))
    for name, n in sorted(mviol.items()):
        msg = "MODEL-ONLY: design model %s: %s false in %d state(s) (see notes/speaker.md; verdicts come from role C)" % (cfg, name, n)
        chk.notes.append(msg)
        print(msg)
    if not initkeys:
        raise vlib.Inconclusive("initial state not found among the emitted transitions of " + cfg)
    edges.sort(key=lambda e: (e[0], vlib.canon(e[1]), e[2]))
    vlib.log("  %s: %d distinct states, %d transitions emitted in %.1fs" % (cfg, res.distinct, len(edges), res.wall))
    return edges, inits[0], initkeys[0], res


def simulate(chk, cfg, num, depth, seed, timeout=1500):
    """Role B by random simulation: a new behaviour starts whenever pre is the initial state."""
    walks, cur, inits = [], [], []

    def sink(o):
        if "init" in o:
            if not inits:
                inits.append(o["init"])
            return
        if "pre" not in o:
            return
        if o["n"] == 0 and is_initial(o["pre"]):
            if cur:
                walks.append(list(cur))
            cur.clear()
        cur.append(o["act"])

    res = vlib.tlc(chk.work, "SpeakerMC", cfg, workers=1, timeout=timeout,
                   args=["-simulate", "num=%d" % num, "-depth", str(depth), "-seed", str(seed)], json_sink=sink)
    if cur:
        walks.append(list(cur))
    if res.error and "timeout" in str(res.error):
        raise vlib.Inconclusive("TLC simulate %s: %s" % (cfg, res.error))
    if not walks or not inits:
        raise vlib.Inconclusive("simulation of %s produced no walks: %s" % (cfg, res.out[-800:]))
    vlib.log("  %s: %d simulated walks, %d steps in %.1fs" % (cfg, len(walks), sum(map(len, walks)), res.wall))
    return walks, inits[0], res


def cover_walks(edges, initkey, max_len=40, seed=0, sample=None):
    """Walks from the initial state that together execute every (sampled) transition: for every
    target not yet executed, the shortest path to its source, the transition, then as many further
    unexecuted targets as can be followed directly.  Linear in the total walk length."""
    import random
    from collections import defaultdict, deque
    rnd = random.Random(seed)
    out = defaultdict(list)
    for i, e in enumerate(edges):
        out[e[0]].append(i)
    parent = {initkey: None}
    dq = deque([initkey])
    while dq:
        k = dq.popleft()
        for i in out.get(k, ()):
            nk = edges[i][2]
            if nk not in parent:
                parent[nk] = i
                dq.append(nk)
    targets = [i for i, e in enumerate(edges) if e[0] in parent]
    unreachable = len(edges) - len(targets)
    if sample is not None and sample < len(targets):
        targets = rnd.sample(targets, sample)
    todo = set(targets)
    pending = defaultdict(list)
    for i in targets:
        pending[edges[i][0]].append(i)
    for k in pending:
        rnd.shuffle(pending[k])
    order = sorted(targets, key=lambda i: (edges[i][0], i))
    rnd.shuffle(order)
    walks = []
    for t in order:
        if t not in todo:
            continue
        path = []
        k = edges[t][0]
        while parent[k] is not None:
            path.append(parent[k])
            k = edges[parent[k]][0]
        path.reverse()
        walk = path + [t]
        todo.discard(t)
        cur = edges[t][2]
        while len(walk) < max_len:
            nxt = None
            while pending.get(cur):
                c = pending[cur].pop()
                if c in todo:
                    nxt = c
                    break
            if nxt is None:
                break
            walk.append(nxt)
            todo.discard(nxt)
            cur = edges[nxt][2]
        for i in walk:
            todo.discard(i)
        walks.append(walk)
    return walks, unreachable + len(todo)


WALKS_PER_PROCESS = 6000


def replay_walks(chk, scen_path, cat_path, tag):
    """Replays the walks on the real speaker.  Every walk owns a real layer2.Announce whose two
    background goroutines never stop, so the scenario file is cut into pieces and each piece runs
    in a process of its own."""
    obs_path = os.path.join(chk.work, "obs_%s.ndjson" % tag)
    ov = vlib.overlay_for(mapping(), chk.work)
    lines = open(scen_path).read().splitlines()
    with open(obs_path, "w") as out:
        for k in range(0, len(lines), WALKS_PER_PROCESS):
            part = os.path.join(chk.work, "scen_part.ndjson")
            pobs = os.path.join(chk.work, "obs_part.ndjson")
            with open(part, "w") as fh:
                fh.write("\n".join(lines[k:k + WALKS_PER_PROCESS]) + "\n")
            rc, res = vlib.go_test("speaker", "^TestVerifSpeakerReplay$", ov,
                                   {"VERIF_SCENARIOS": part, "VERIF_OBS": pobs, "VERIF_SPKDOMAIN": cat_path,
                                    "VERIF_SEED": chk.seed})
            if rc != 0:
                raise vlib.Inconclusive("speaker harness failed (rc=%s):\n%s" % (rc, res[-3000:]))
            with open(pobs) as fh:
                for l in fh:
                    out.write(l)
    return obs_path


def judge(chk, obs_path):
    return vlib.run_judge_parallel(chk, "SpeakerTrace", "SpeakerTrace.cfg", obs_path, chunks=12)


# --------------------------------------------------------------------------- signatures

def announced_view(x):
    l2 = sorted((e["s"], e["ip"], e["all"], tuple(e["ifs"])) for e in x["l2"])
    bgp = sorted((p, r["raw"], r["lp"], tuple(r["comms"])) for p, v in x["peers"].items() if v["up"] for r in v["routes"])
    return l2, bgp


def direction(main, fresh):
    a, b = set(main), set(fresh)
    if a == b:
        return None
    if a > b:
        return "stale"
    if a < b:
        return "missing"
    return "different"


def differing_services(o):
    """Services whose announcement differs between the old speaker and the fresh one."""
    f = o["fresh"]
    out = set()
    for key in ("annB", "annL"):
        out |= set(o[key]) ^ set(f[key])
    a = {(e["s"], e["ip"], e["all"], tuple(e["ifs"])) for e in o["l2"]}
    b = {(e["s"], e["ip"], e["all"], tuple(e["ifs"])) for e in f["l2"]}
    out |= {e[0] for e in a ^ b}
    return out or {s for s, v in o["cl"]["svcs"].items() if not v.get("null")}


def node_learnt_late(walk_obs, k):
    """Did the speaker first hear of some node after the last time it handled one of the services
    whose announcement differs?"""
    o = walk_obs[k]
    for s in differing_services(o):
        last_handled = max([j for j in range(k + 1) if s in walk_obs[j]["handled"]], default=-1)
        for n in o["seen"]:
            first = next(j for j in range(k + 1) if n in walk_obs[j]["seen"])
            if first > last_handled >= 0:
                return True
    return False


def fired_faults(walk_obs, k):
    """The injected faults that fired at or before observation k, in order: ["set@DeliverNode", ...]
    (a Set call failed inside the node handler)."""
    out = []
    prev = {"setFailed": 0, "startFailedN": 0}
    for j in range(k + 1):
        for key, kind in (("setFailed", "set"), ("startFailedN", "start")):
            cur = walk_obs[j].get(key) or 0
            if cur > prev[key]:
                out.append("%s@%s" % (kind, walk_obs[j]["op"]))
            prev[key] = cur
    return out


def fault_origin(walk_obs, k):
    """The first Set failure that fired (its effects may be permanent), else the first failed
    session start, else "none"."""
    f = fired_faults(walk_obs, k)
    for kind in ("set@", "start@"):
        for x in f:
            if x.startswith(kind):
                return x
    return "none"


def signature(name, walk_obs, k, fm=()):
    """Stable description of a failure, computed from the observations only (never decides);
    fm = how the judge saw the started fresh speaker differ from the specification's Fresh."""
    o = walk_obs[k]
    if name in ("C13.FreshScope", "C13.FreshSet", "C10.FreshBGP"):
        # the fresh speaker that was started does not announce what the specification's Fresh says
        same = announced_view(o) == announced_view(o["fresh"])
        return "%s|old=%s" % (name, "same-as-fresh" if same else "differs-from-fresh")
    if name == "C09.FreshModel":
        same = sorted(o["annL"]) == sorted(o["fresh"]["annL"]) and sorted(o["annB"]) == sorted(o["fresh"]["annB"]) \
            and announced_view(o) == announced_view(o["fresh"])
        return "%s|diff=%s|old=%s" % (name, ",".join(sorted(fm)) or "none", "same-as-fresh" if same else "differs-from-fresh")
    if name.startswith("C05.") and fault_origin(walk_obs, k) != "none":
        origin = fault_origin(walk_obs, k)
        if name == "C05.SessionsExact" and "missing" in fm and \
                all(x in ("set@DeliverSvc", "set@ResyncPass") for x in fired_faults(walk_obs, k)):
            # every fault that fired is a Set failing inside a service handler; the handler has been retried successfully since
            # (settled: no failed call is waiting), and still an announced service's route is not
            # offered: the retry did not publish.  (The recorded error-path findings are about state
            # changed before a failing Set that is never retried: stale routes after a failed delete /
            # announce, empty sessions after a failed node / configuration handler.)
            return "%s|retried-but-not-offered|fault=setretry@%s" % (name, origin.split("@")[1])
        kind = ""
        if name == "C05.ReportedPeers":
            up = {p for p, v in o["peers"].items() if v["up"]}
            ghost = any(p not in up for l in o["rep"].values() for p in l)
            kind = "|kind=" + ("reports-peer-without-session" if ghost else "other")
        return "%s%s|fault=%s" % (name, kind, fault_origin(walk_obs, k))
    if name == "C09.Converged":
        ml2, mbgp = announced_view(o)
        fl2, fbgp = announced_view(o["fresh"])
        parts = []
        for proto, a, b in (("l2", ml2, fl2), ("bgp", mbgp, fbgp)):
            d = direction(a, b)
            if d:
                parts.append("%s:%s" % (proto, d))
        same = sorted(o["annL"]) == sorted(o["fresh"]["annL"]) and sorted(o["annB"]) == sorted(o["fresh"]["annB"])
        # layer-2 entries only the old speaker has: is the address still one of the service's?
        kinds = set()
        for e in set(ml2) - set(fl2):
            v = o["cl"]["svcs"].get(e[0], {"null": True})
            if v.get("null") or v.get("type") != "LB":
                kinds.add("no-service")
            elif e[1] in v.get("ips", []):
                kinds.add("current-address")
            else:
                kinds.add("old-address")
        return "%s|diff=%s|announced=%s|l2stale=%s|hist=%s" % (
            name, ",".join(parts) or "none", "same" if same else "differs", ",".join(sorted(kinds)) or "-",
            "node-learnt-late" if node_learnt_late(walk_obs, k) else "other")
    if name == "C05.ReportedPeers":
        up = {p for p, v in o["peers"].items() if v["up"]}
        ghost = any(p not in up for l in o["rep"].values() for p in l)
        return "%s|kind=%s|q=%s|fault=none" % (name, "reports-peer-without-session" if ghost else "other",
                                               str(bool(o["q"])).lower())
    return "%s|op=%s|fault=none" % (name, o["op"])


def classify(fails_of_line):
    """C09 is literal: a violation is a quiescent observation at which the old speaker does not
    announce what the fresh speaker that was actually started on the same final state announces
    (the judge's C09.DiffersFromObservedFresh; reported under the name C09.Converged).  Differences
    to the specification's Fresh that the old and the started fresh speaker share are model drift
    for C09 (run_side reports them under C13 / C10)."""
    names = set(fails_of_line)
    out, drift = set(), set()
    for n in names:
        if n == "C09.DiffersFromObservedFresh":
            out.add("C09.Converged")
        elif n == "C09.Converged":
            if "C09.DiffersFromObservedFresh" not in names:
                drift.add("equal-to-started-fresh-but-not-to-spec-Fresh")
        elif n == "C09.FreshModel":
            drift.add("started-fresh-differs-from-spec-Fresh")
        elif n == "C09.Drains":
            drift.add("walk-did-not-drain")
        else:
            out.add(n)
    return out, drift


def by_walk(obs_path):
    byw = {}
    for l in open(obs_path):
        o = json.loads(l)
        byw.setdefault(o["w"], []).append(o)
    return byw


SIDE_NAMES = {"C13": {"l2-scope": "C13.FreshScope", "l2-set": "C13.FreshSet"}, "C10": {"bgp": "C10.FreshBGP"}}


def extract(chk, f, account=True):
    """The failures of one judged line that belong to chk.prop: list of (name, fm).  For C05 / C09
    the predicates of the property itself (drift is counted once, when account is set).  For the side
    properties C13 / C10 the difference between the fresh speaker that was started and the
    specification's Fresh, by kind (layer-2 interface scope / layer-2 set -> C13, BGP routes -> C10)."""
    fm = tuple(f.get("fm", ()))
    if chk.prop in SIDE_NAMES:
        if "C09.FreshModel" not in f["fails"]:
            return []
        return [(SIDE_NAMES[chk.prop][k], fm) for k in sorted(fm) if k in SIDE_NAMES[chk.prop]]
    real, drift = classify(f["fails"])
    if account and chk.prop == "C09":
        for d in drift:
            chk.cov["drift"] += 1
            if len(chk.notes) < 30:
                chk.notes.append("DRIFT: %s at %s obs %d" % (d, f["w"], f["step"]))
    return [(name, fm) for name in sorted(real) if name.startswith(chk.prop + ".")]


def collect(chk, fails, byw):
    """(walk, index, predicate, fm) tuples of this property, plus drift notes."""
    mine = []
    for f in fails:
        for name, fm in extract(chk, f):
            mine.append((f["w"], f["step"], name, fm))
    return mine


def confirm(chk, mine, steps, inits, cat_path, byw):
    reps = {}
    for w, k, name, fm in sorted(mine, key=lambda x: (x[2], len(byw[x[0]]), x[0], x[1])):
        reps.setdefault(signature(name, byw[w], k, fm), []).append((w, k, name))
    sel = {}
    for sig, lst in reps.items():
        for w, k, name in lst[:3]:
            sel.setdefault(w, []).append((k, name, sig))
    scen = os.path.join(chk.work, "scen_confirm.ndjson")
    with open(scen, "w") as fh:
        for w in sorted(sel):
            n = int(w[1:])
            fh.write(json.dumps({"id": w, "init": inits[n], "steps": steps[n]}) + "\n")
    obs_path = replay_walks(chk, scen, cat_path, "confirm")
    fails2, _ = judge(chk, obs_path)
    byw2 = by_walk(obs_path)
    again = set()
    for f in fails2:
        for name, fm in extract(chk, f, account=False):
            again.add((f["w"], name, signature(name, byw2[f["w"]], f["step"], fm)))
    for sig, lst in sorted(reps.items()):
        done = False
        for w, k, name in lst[:3]:
            if (w, name, sig) in again:
                n = int(w[1:])
                o = byw[w][k]
                hist = [x["act"] for x in byw[w][1:k + 1] if not x["skipped"]]
                chk.fail(sig, name, detail={"observation": slim(o), "history": hist, "occurrences": len(lst)},
                         scenario=dict({"family": "speaker", "init": inits[n], "steps": steps[n]},
                                       **({"side_family": "fam_speaker"} if chk.prop in SIDE_NAMES else {})))
                done = True
                break
        if not done:
            chk.notes.append("unreproduced: %s (%d occurrence(s))" % (sig, len(lst)))


def slim(o):
    return {k: o[k] for k in ("w", "n", "op", "act", "q", "cl", "ctl", "seen", "annB", "annL", "ips", "l2", "peers", "rep", "fresh", "since", "errS", "sf", "setFailed", "startFailedN")
            if k in o}


def run_cfg(chk, cfg, mode, sample, cat_path):
    if mode == "sim":
        p = SIM[chk.tier]
        steps, init, res = simulate(chk, cfg, p["num"], p["depth"], chk.seed)
        inits = [init] * len(steps)
        nedges, left, exhaustive = sum(map(len, steps)), 0, False
        chk.cov["model_runs"].append({"cfg": cfg, "simulated_walks": len(steps), "steps": nedges, "wall_s": round(res.wall, 1)})
    else:
        edges, init, initkey, res = generate(chk, cfg)
        walks, left = cover_walks(edges, initkey, max_len=40, seed=chk.seed, sample=sample)
        steps = [[edges[i][1] for i in w] for w in walks]
        inits = [init] * len(walks)
        nedges = len(edges)
        exhaustive = left == 0 and (sample is None or sample >= len(edges))
    scen = os.path.join(chk.work, "scen_%s.ndjson" % cfg)
    with open(scen, "w") as fh:
        for n, st in enumerate(steps):
            fh.write(json.dumps({"id": "w%d" % n, "init": inits[n], "steps": st}) + "\n")
    vlib.log("  %s: %d transitions, %d walks, %d steps, %d uncovered" % (cfg, nedges, len(steps), sum(map(len, steps)), left))
    obs_path = replay_walks(chk, scen, cat_path, cfg)
    fails, nlines = judge(chk, obs_path)
    byw = by_walk(obs_path)
    if not hasattr(chk, "spk_nontrivial"):
        chk.spk_nontrivial = set()      # over all configurations of the run: a case counts once
    nontrivial, quiescent, skipped, settled = chk.spk_nontrivial, 0, 0, 0
    nt_before = len(nontrivial)
    for w, ol in byw.items():
        for k in range(1, len(ol)):
            a, b = ol[k - 1], ol[k]
            quiescent += bool(b["q"])
            skipped += bool(b["skipped"])
            settled += bool(set(b["annB"]) <= set(b["since"]) and not b["ctl"].get("null"))
            if (a["l2"], a["peers"], a["rep"], a["annB"], a["annL"], a["ips"], a["seen"], a["ctl"]) != \
               (b["l2"], b["peers"], b["rep"], b["annB"], b["annL"], b["ips"], b["seen"], b["ctl"]):
                nontrivial.add(hashlib.md5(vlib.canon([a["cl"], a["ctl"], a["seen"], a["annB"], a["annL"], a["ips"], a["l2"],
                                                       {p: [v["up"], v["routes"]] for p, v in a["peers"].items()},
                                                       b["act"]]).encode()).digest())
    chk.cov["traces_validated_against_impl"] += len(steps)
    chk.cov["evaluations"] += nlines
    chk.cov["distinct_nontrivial"] += len(nontrivial) - nt_before
    for key, val in (("quiescent_observations", quiescent), ("settled_observations", settled), ("skipped_steps", skipped)):
        chk.cov[key] = chk.cov.get(key, 0) + val
    if mode == "edges" and chk.prop not in SIDE_NAMES:
        chk.cov["exhaustive"] = chk.cov.get("exhaustive", True) and exhaustive
    if steps and len(chk.cov["samples"]) < 2:
        chk.cov["samples"].append({"cfg": cfg, "walk": steps[0][:8], "observations": [slim(o) for o in byw.get("w0", [])[:3]]})
    mine = collect(chk, fails, byw)
    if mine:
        confirm(chk, mine, steps, inits, cat_path, byw)


def run(chk):
    cat_path = catalog_dump(chk)
    for cfg, mode, sample in CONFIGS[chk.prop][chk.tier]:
        run_cfg(chk, cfg, mode, sample, cat_path)
    if chk.cov["drift"]:
        print("DRIFT: %d observation(s) where the old speaker, the fresh speaker actually started and the specification's "
              "Fresh disagree in a way that is not a violation of %s (see evidence notes)" % (chk.cov["drift"], chk.prop))
    chk.cov["rule"] = ("speaker level: transitions of the bounded TLC state graph of SpeakerMC (service / endpoint / node / "
                       "configuration / memberlist changes, event deliveries in every order, re-sync passes) executed on the real "
                       "speaker controller through the real service, node and configuration reconcilers (edge cover by walks plus "
                       "seeded random walks, each walk drained); non-trivial = distinct (cluster, loaded configuration, speaker "
                       "memory, announcements, step) whose step changed the speaker's memory or announcements")
    chk.assumptions += [
        "C05 is judged at observations where every BGP-announced service has been handled since the speaker last loaded a "
        "configuration (between SetConfig and the re-sync it requests the advertisements are those of the previous configuration); "
        "the reference is the speaker's own announced set / addresses and the node sets of the configuration it holds",
        "nodes are never deleted; endpoints have distinct addresses; handlers run one at a time (a re-sync pass is not interleaved "
        "with node / configuration handlers); sessions never fail to start and Set never fails",
        "C09 is literal: at quiescence the old speaker must announce what a fresh real speaker started on the same final state "
        "(all nodes, configuration, initial re-sync, initial service events) announces; differences of both to the specification's "
        "Fresh are DRIFT for C09 and are reported by run_side under C13 (layer-2 scope / set) and C10 (BGP)",
        "the hash order of the two node names per address is observed from the real layer2Controller by a two-node duel",
        "aggregation lengths are 0, the 4-bit field boundary lengths (22..26 / 62..66) and the full length; length 0 needs a /0 pool "
        "(configuration validation)",
    ]


def run_side(chk):
    """Side entry, called by bin/check after the property's own family: the speaker observations
    also decide
      C13 - a node answers for an address on an interface iff a Service it announces holds the
            address with an advertisement covering that interface: the layer-2 (service, address,
            interface scope) set of a freshly started real speaker must be the specification's Fresh
            (C13.FreshScope: same addresses, other scope; C13.FreshSet: other addresses);
      C10 - the node announces over BGP iff eligible: the per-peer routes of a freshly started real
            speaker must be the specification's Fresh (C10.FreshBGP).
    Counters are added to what the own family measured."""
    if chk.prop not in SIDE_CONFIGS:
        return
    cat_path = catalog_dump(chk)
    for cfg, mode, sample in SIDE_CONFIGS[chk.prop][chk.tier]:
        run_cfg(chk, cfg, mode, sample, cat_path)
    rule = ("speaker side run: at every quiescent observation of the walks of the small SpeakerMC configurations a fresh real "
            "speaker is started on the final cluster and its announcements are compared with the specification's Fresh "
            "(%s)" % ", ".join(sorted(SIDE_NAMES[chk.prop].values())))
    chk.cov["rule"] = (chk.cov["rule"] + " || " if chk.cov["rule"] else "") + rule


def replay(chk, path):
    body = json.load(open(path))
    cat_path = catalog_dump(chk)
    sc = body["scenario"]
    scen = os.path.join(chk.work, "scen_replay.ndjson")
    with open(scen, "w") as fh:
        fh.write(json.dumps({"id": "w0", "init": sc["init"], "steps": sc["steps"]}) + "\n")
    obs_path = replay_walks(chk, scen, cat_path, "replay")
    fails, nlines = judge(chk, obs_path)
    byw = by_walk(obs_path)
    chk.cov["evaluations"] = nlines
    chk.cov["traces_validated_against_impl"] = 1
    chk.cov["samples"].append(sc["steps"][:8])
    seen = set()
    for w, k, name, fm in collect(chk, fails, byw):
        sig = signature(name, byw[w], k, fm)
        if sig not in seen:
            seen.add(sig)
            chk.fail(sig, name, detail={"observation": slim(byw[w][k])}, scenario=sc)
