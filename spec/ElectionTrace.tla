---------------------------- MODULE ElectionTrace ----------------------------
(***************************************************************************)
(* Role C for the election family (C04, C10, C12).  Every line of           *)
(* obs.ndjson is one TLC-generated input (`in`) together with what the real *)
(* controllers of all nodes decided on it.  TLC evaluates the property      *)
(* predicates of Election.tla on those decisions; failing predicates are    *)
(* printed (with what is needed to name the failure), never fatal.          *)
(*                                                                         *)
(*   kind "l2" / "duel": o.dec[k][shape][p] = nodes whose layer-2            *)
(*        controller announces, for address pair k, service shape           *)
(*        s4 = [v4], s6 = [v6], s46 = [v4, v6], s64 = [v6, v4] and          *)
(*        arrangement p of the input lists                                  *)
(*   kind "pair": o.decb / o.decp the same for o.in.base / o.in.pert        *)
(*   kind "bgp":  o.bgp[node][p] = string returned by the BGP controller    *)
(*   optional o.e2e / o.routes: what the whole speaker controller ended up  *)
(*        announcing (sampled inputs)                                       *)
(*   kind "seq":  o.in.views = views evaluated one after the other on       *)
(*        long-lived controllers; o.seq[j] = what the whole controllers of  *)
(*        all nodes announce after view j (l2 / bgp per service, routes per *)
(*        node).  Every evaluation is judged on the CURRENT view.           *)
(*   kind "cfg":  the configuration went through config.For; o.in.view is   *)
(*        the view with the advertisements resolved by the specification;   *)
(*        o.cl2 / o.cbgp the decisions on the parsed pool                   *)
(***************************************************************************)
EXTENDS Election, Json

Trace == ndJsonDeserialize("obs.ndjson")
N == Len(Trace)

VARIABLES i,      \* line being judged
          tab     \* the duel table (computed once, in Init)

Has(o, f) == f \in DOMAIN o

(* JSON arrays arrive as sequences: advertisement node selections become sets *)
NV(w) == [nodes |-> w.nodes, ml |-> w.ml, ign |-> w.ign, etp |-> w.etp, eps |-> w.eps,
          advs |-> [k \in DOMAIN w.advs |-> ERange(w.advs[k])]]

Shapes == {"s4", "s6", "s46", "s64"}
Arr == 1..3
AddrsOf(sh, pr) == CASE sh = "s4" -> <<pr[1]>> [] sh = "s6" -> <<pr[2]>>
                     [] sh = "s46" -> <<pr[1], pr[2]>> [] OTHER -> <<pr[2], pr[1]>>
Ann(d, sh, p) == ERange(d[sh][p])

----------------------------------------------------------------------------
(* The observed election order: outcome of the two-node duels, per address. *)
DuelLines == {k \in 1..N : Trace[k].in.kind = "duel"}
DuelElig(k) == L2Eligible(NV(Trace[k].in.view))
DuelAddrs == UNION {UNION {{Trace[k].in.pairs[j][1], Trace[k].in.pairs[j][2]} : j \in DOMAIN Trace[k].in.pairs}
                      : k \in DuelLines}
DuelOutcome(k, a) ==
  LET o == Trace[k]
      j == CHOOSE j \in DOMAIN o.in.pairs : a \in {o.in.pairs[j][1], o.in.pairs[j][2]}
  IN Ann(o.dec[j], IF o.in.pairs[j][1] = a THEN "s4" ELSE "s6", 1)
(* <<address, {n, m}>> |-> announcers of the duel.  It is computed once, in  *)
(* Init, and carried in the state: TLC re-evaluates a constant definition   *)
(* of this shape at every use.                                              *)
DuelRecs == {[a |-> a, S |-> DuelElig(k), w |-> DuelOutcome(k, a)] : k \in DuelLines, a \in DuelAddrs}
DuelTabNow == LET recs == TLCEval(DuelRecs) IN
              TLCEval([key \in {<<r.a, r.S>> : r \in recs} |->
                         (CHOOSE r \in recs : r.a = key[1] /\ r.S = key[2]).w])
(* the node of E that wins its duel against every other node of E           *)
DuelMin(a, E) == {n \in E : \A m \in E \ {n} : tab[<<a, {n, m}>>] = {n}}
DuelsKnown(a, E) == \A n \in E : \A m \in E \ {n} : <<a, {n, m}>> \in DOMAIN tab

----------------------------------------------------------------------------
(* C04 on one view with its decisions D                                     *)
C04_ExactlyOne(E, D) ==
  \A k \in DOMAIN D : \A sh \in Shapes : \A p \in Arr :
     IF E = {} THEN Ann(D[k], sh, p) = {} ELSE Cardinality(Ann(D[k], sh, p)) = 1

C04_Eligible(E, D) ==
  \A k \in DOMAIN D : \A sh \in Shapes : \A p \in Arr : Ann(D[k], sh, p) \subseteq E

(* services sharing an address: the pairs of shapes that disagree           *)
Holding(pos) == IF pos = 1 THEN {"s4", "s46", "s64"} ELSE {"s6", "s46", "s64"}
SplitPairs(D) ==
  {st \in UNION {{<<s, t>> : s \in Holding(pos), t \in Holding(pos)} : pos \in {1, 2}} :
     \E k \in DOMAIN D : \E p \in Arr : Ann(D[k], st[1], p) # Ann(D[k], st[2], p)}

----------------------------------------------------------------------------
(* C12 on one view *)
C12_OrderFree(D) ==
  \A k \in DOMAIN D : \A sh \in Shapes : \A p \in Arr : Ann(D[k], sh, p) = Ann(D[k], sh, 1)

(* the announcer of an address is the node that wins all duels inside the   *)
(* eligible set, for every address of the service: <<shape, position>> of   *)
(* the addresses for which it is not                                        *)
ByDuelsBad(E, pairs, D) ==
  IF Cardinality(E) < 2 THEN {}
  ELSE {sp \in {<<sh, pos>> : sh \in Shapes, pos \in {1, 2}} :
          \E k \in DOMAIN D :
             LET as == AddrsOf(sp[1], pairs[k]) IN
             /\ sp[2] <= Len(as)
             /\ DuelsKnown(as[sp[2]], E)
             /\ \E p \in Arr : Ann(D[k], sp[1], p) # DuelMin(as[sp[2]], E)}

ViewFails(V, pairs, D) ==
  LET E == L2Eligible(V) IN
  (IF C04_ExactlyOne(E, D) THEN {} ELSE {"C04.ExactlyOne"}) \cup
  (IF C04_Eligible(E, D) THEN {} ELSE {"C04.Eligible"}) \cup
  (IF SplitPairs(D) = {} THEN {} ELSE {"C04.SameForSharers", "C12.SameService"}) \cup
  (IF C12_OrderFree(D) THEN {} ELSE {"C12.OrderFree"}) \cup
  (IF ByDuelsBad(E, pairs, D) = {} THEN {} ELSE {"C12.ByDuels"})

----------------------------------------------------------------------------
(* C12 on a (base, perturbed) pair: shapes for which the clause fails       *)
PairBad(o, clause(_, _, _, _)) ==
  LET E == L2Eligible(NV(o.in.base))  E2 == L2Eligible(NV(o.in.pert)) IN
  {sh \in Shapes : \E k \in DOMAIN o.decb : \E p \in Arr :
      ~clause(E, E2, Ann(o.decb[k], sh, p), Ann(o.decp[k], sh, p))}

(* removing nodes other than the announcer leaves the announcer unchanged   *)
ClRemove(E, E2, w, w2) == (E2 \subseteq E /\ w # {} /\ w \subseteq E2) => w2 = w
(* adding nodes leaves it unchanged unless an added node becomes announcer  *)
ClAdd(E, E2, w, w2) == (E \subseteq E2) => w2 \subseteq (w \cup (E2 \ E))
(* never a move between two nodes eligible before and after                 *)
ClNoSwap(E, E2, w, w2) == ((w \cup w2) \subseteq (E \cap E2)) => w = w2

PairFails(o) ==
  (IF PairBad(o, ClRemove) = {} THEN {} ELSE {"C12.Remove"}) \cup
  (IF PairBad(o, ClAdd) = {} THEN {} ELSE {"C12.Add"}) \cup
  (IF PairBad(o, ClNoSwap) = {} THEN {} ELSE {"C12.NoSwap"})

----------------------------------------------------------------------------
(* C10 *)
BgpBad(o) ==
  LET V == NV(o.in.view) IN
  {x \in UNION {{[n |-> n, got |-> o.bgp[n][p], want |-> BGPEligible(V, n)] : p \in DOMAIN o.bgp[n]} : n \in NodesOf(V)} :
     (x.got = "") # x.want}

(* the whole controller: announced flag and routes on the sessions          *)
E2EBgpBad(o) ==
  LET V == NV(o.in.view) IN
  {n \in NodesOf(V) : \/ (n \in ERange(o.e2e.bgp)) # BGPEligible(V, n)
                      \/ (o.routes[n] > 0) # BGPEligible(V, n)}

E2EL2OK(o) ==
  LET V == NV(o.in.view)  E == L2Eligible(V)  a == ERange(o.e2e.l2) IN
  /\ a \subseteq E
  /\ (IF E = {} THEN a = {} ELSE Cardinality(a) = 1)


----------------------------------------------------------------------------
(* sequences on long-lived controllers *)
SeqSvcs == {"svcA", "svcB"}
SeqAddr(o, sv) == IF sv = "svcA" THEN o.in.pairs[1][1] ELSE o.in.pairs[Len(o.in.pairs)][2]
SeqL2(o, j, sv) == ERange(o.seq[j].l2[sv])

(* indices of the views after which the predicate fails *)
SeqBadExactlyOne(o) ==
  {j \in DOMAIN o.seq : LET E == L2Eligible(NV(o.in.views[j])) IN
     \E sv \in SeqSvcs : ~(IF E = {} THEN SeqL2(o, j, sv) = {} ELSE Cardinality(SeqL2(o, j, sv)) = 1)}
SeqBadEligible(o) ==
  {j \in DOMAIN o.seq : \E sv \in SeqSvcs : ~(SeqL2(o, j, sv) \subseteq L2Eligible(NV(o.in.views[j])))}
SeqBadByDuels(o) ==
  {j \in DOMAIN o.seq : LET E == L2Eligible(NV(o.in.views[j])) IN
     /\ Cardinality(E) >= 2
     /\ \E sv \in SeqSvcs : DuelsKnown(SeqAddr(o, sv), E) /\ SeqL2(o, j, sv) # DuelMin(SeqAddr(o, sv), E)}
SeqBadClause(o, clause(_, _, _, _)) ==
  {j \in DOMAIN o.seq : j > 1 /\ \E sv \in SeqSvcs :
     ~clause(L2Eligible(NV(o.in.views[j - 1])), L2Eligible(NV(o.in.views[j])), SeqL2(o, j - 1, sv), SeqL2(o, j, sv))}
SeqBadBgp(o) ==
  {j \in DOMAIN o.seq : LET V == NV(o.in.views[j]) IN
     \E n \in NodesOf(V) : \E sv \in SeqSvcs : (n \in ERange(o.seq[j].bgp[sv])) # BGPEligible(V, n)}
SeqBadRoutes(o) ==
  {j \in DOMAIN o.seq : LET V == NV(o.in.views[j]) IN
     \E n \in NodesOf(V) : (o.seq[j].routes[n] > 0) # BGPEligible(V, n)}

SeqFails(o) ==
  (IF SeqBadExactlyOne(o) = {} THEN {} ELSE {"C04.SeqExactlyOne"}) \cup
  (IF SeqBadEligible(o) = {} THEN {} ELSE {"C04.SeqEligible"}) \cup
  (IF SeqBadByDuels(o) = {} THEN {} ELSE {"C12.SeqByDuels"}) \cup
  (IF SeqBadClause(o, ClRemove) = {} THEN {} ELSE {"C12.SeqRemove"}) \cup
  (IF SeqBadClause(o, ClAdd) = {} THEN {} ELSE {"C12.SeqAdd"}) \cup
  (IF SeqBadClause(o, ClNoSwap) = {} THEN {} ELSE {"C12.SeqNoSwap"}) \cup
  (IF SeqBadBgp(o) = {} THEN {} ELSE {"C10.SeqIff"}) \cup
  (IF SeqBadRoutes(o) = {} THEN {} ELSE {"C10.SeqRoutes"})

(* configuration parsed by config.For *)
CfgFails(o) ==
  LET V == NV(o.in.view)  E == L2Eligible(V)  a == ERange(o.cl2) IN
  (IF \A n \in NodesOf(V) : (o.cbgp[n] = "") = BGPEligible(V, n) THEN {} ELSE {"C10.CfgIff"}) \cup
  (IF E2EBgpBad(o) = {} THEN {} ELSE {"C10.CfgRoutes"}) \cup
  (IF (IF E = {} THEN a = {} ELSE Cardinality(a) = 1) THEN {} ELSE {"C04.CfgExactlyOne"}) \cup
  (IF a \subseteq E THEN {} ELSE {"C04.CfgEligible"}) \cup
  (IF Cardinality(E) >= 2 /\ DuelsKnown(o.in.pairs[1][1], E) /\ a # DuelMin(o.in.pairs[1][1], E) THEN {"C12.CfgByDuels"} ELSE {}) \cup
  (IF E2EL2OK(o) THEN {} ELSE {"C04.CfgController"})

----------------------------------------------------------------------------
Fails(k) ==
  LET o == Trace[k] IN
  (IF Has(o, "err") THEN {"C04.Panic", "C10.Panic", "C12.Panic"} ELSE {}) \cup
  (IF o.in.kind \in {"l2", "duel"} /\ Has(o, "dec") THEN ViewFails(NV(o.in.view), o.in.pairs, o.dec) ELSE {}) \cup
  (IF o.in.kind = "pair" /\ Has(o, "decb")
   THEN ViewFails(NV(o.in.base), o.in.pairs, o.decb) \cup ViewFails(NV(o.in.pert), o.in.pairs, o.decp) \cup PairFails(o)
   ELSE {}) \cup
  (IF o.in.kind = "seq" /\ Has(o, "seq") THEN SeqFails(o) ELSE {}) \cup
  (IF o.in.kind = "cfg" /\ Has(o, "cbgp") THEN CfgFails(o) ELSE {}) \cup
  (IF o.in.kind = "bgp" /\ Has(o, "bgp") THEN (IF BgpBad(o) = {} THEN {} ELSE {"C10.Iff"}) ELSE {}) \cup
  (IF o.in.kind = "bgp" /\ Has(o, "e2e") THEN (IF E2EBgpBad(o) = {} THEN {} ELSE {"C10.Routes"}) ELSE {}) \cup
  (IF o.in.kind \in {"l2", "duel"} /\ Has(o, "e2e") THEN (IF E2EL2OK(o) THEN {} ELSE {"C04.Controller"}) ELSE {})

Info(k) ==
  LET o == Trace[k] IN
  IF o.in.kind \in {"l2", "duel"} /\ Has(o, "dec")
  THEN [elig |-> L2Eligible(NV(o.in.view)), splits |-> SplitPairs(o.dec),
        byduels |-> ByDuelsBad(L2Eligible(NV(o.in.view)), o.in.pairs, o.dec)]
  ELSE IF o.in.kind = "pair" /\ Has(o, "decb")
  THEN [elig |-> L2Eligible(NV(o.in.base)), elig2 |-> L2Eligible(NV(o.in.pert)),
        splits |-> SplitPairs(o.decb) \cup SplitPairs(o.decp),
        byduels |-> ByDuelsBad(L2Eligible(NV(o.in.base)), o.in.pairs, o.decb)
                    \cup ByDuelsBad(L2Eligible(NV(o.in.pert)), o.in.pairs, o.decp),
        remove |-> PairBad(o, ClRemove), add |-> PairBad(o, ClAdd), noswap |-> PairBad(o, ClNoSwap)]
  ELSE IF o.in.kind = "bgp" /\ Has(o, "bgp")
  THEN [bgp |-> BgpBad(o)]
  ELSE IF o.in.kind = "seq" /\ Has(o, "seq")
  THEN [steps |-> [exactlyone |-> SeqBadExactlyOne(o), eligible |-> SeqBadEligible(o), byduels |-> SeqBadByDuels(o),
                   remove |-> SeqBadClause(o, ClRemove), add |-> SeqBadClause(o, ClAdd), noswap |-> SeqBadClause(o, ClNoSwap),
                   iff |-> SeqBadBgp(o), routes |-> SeqBadRoutes(o)]]
  ELSE IF o.in.kind = "cfg" /\ Has(o, "cbgp")
  THEN [elig |-> L2Eligible(NV(o.in.view)),
        bgpwant |-> {n \in NodesOf(NV(o.in.view)) : BGPEligible(NV(o.in.view), n)}]
  ELSE [none |-> TRUE]

Init == i = 1 /\ tab = DuelTabNow
Next == i < N /\ i' = i + 1 /\ UNCHANGED tab

Judge ==
  LET f == Fails(i) IN
  /\ (f = {} \/ PrintT(ToJson([fails |-> f, line |-> i, id |-> Trace[i].in.id, info |-> Info(i)])))
  /\ (i < N \/ PrintT(ToJson([done |-> N])))
=============================================================================
