//go:build verif

package frr

// C14 harness: every scenario TLC printed from spec/FRRMC.tla (a set of sessions with their
// advertisements in several creation orders, or a history observed after every operation) is played
// against the real sessionManager (NewSession / Set / Close / SyncBFDProfiles / SyncExtraInfo ->
// createConfig -> reloadEvent); the configuration that reached the reload channel last is rendered
// with the real templateConfig and the text is tokenized (frrcfg_tokenizer.go).  One observation
// per look.  No oracle here.

import (
	"crypto/sha256"
	"encoding/hex"
	"os"
	"sync"
	"testing"

	"github.com/go-kit/log"
	"go.universe.tf/metallb/internal/logging"
	"go.universe.tf/metallb/internal/verifkit"
)

type vFrrObs struct {
	ID        string                `json:"id"`
	Ord       int                   `json:"ord"`
	Step      int                   `json:"step"`
	Seq       int                   `json:"seq"`
	Same      int                   `json:"same"` // > 0: text and expected sessions are identical to those of observation Seq = Same of this scenario (sessions, prog omitted)
	Mode      string                `json:"mode"`
	Node      string                `json:"node"`
	Sessions  []verifkit.FrrSession `json:"sessions,omitempty"`
	Created   []bool                `json:"created"` // per session: NewSession succeeded and not closed
	Errs      []string              `json:"errs"`
	Refusals  []string              `json:"refusals"`
	RefusedOK bool                  `json:"refusedok"`
	Sha       string                `json:"sha"`
	Len       int                   `json:"len"`
	Prog      *vFrrProgram          `json:"prog,omitempty"`
	Text      string                `json:"text,omitempty"`
}

func vFrrHostname() (string, error) { return "verifhost", nil }

// vFrrDrain stands where the debouncer stands in production: it receives the reload events (no
// timers, no file, no reloader) and remembers the last configuration, i.e. what would be written.
type vFrrDrain struct {
	mu   sync.Mutex
	last *frrConfig
	done chan struct{}
}

func vFrrStartDrain(ch chan reloadEvent) *vFrrDrain {
	d := &vFrrDrain{done: make(chan struct{})}
	go func() {
		defer close(d.done)
		for ev := range ch {
			if !ev.useOld {
				d.mu.Lock()
				d.last = ev.config
				d.mu.Unlock()
			}
		}
	}()
	return d
}

func TestVerifFrrcfg(t *testing.T) {
	scs := verifkit.FrrReadScenarios()
	out := verifkit.NewObsWriter()
	defer out.Close()
	osHostname = vFrrHostname
	os.Unsetenv("FRR_LOGGING_LEVEL")
	withText := verifkit.FrrWithText()
	l := log.NewNopLogger()
	verifkit.FrrForEach(scs, out, func(sc verifkit.FrrScenario, b *verifkit.Block) {
		first := map[string]int{}
		seq := 0
		for k, ops := range sc.Orders {
			// the fields NewSessionManager fills
			sm := &sessionManager{
				sessions:     map[string]*session{},
				bfdProfiles:  []BFDProfile{},
				reloadConfig: make(chan reloadEvent),
				logLevel:     logLevelToFRR(logging.LevelInfo),
			}
			drain := vFrrStartDrain(sm.reloadConfig)
			verifkit.FrrRun(sm, l, sc, ops, func(lk verifkit.FrrLook) {
				// barrier: once this (ignored) event is taken, every earlier event has been stored
				sm.reloadConfig <- reloadEvent{useOld: true}
				drain.mu.Lock()
				last := drain.last
				drain.mu.Unlock()
				seq++
				o := vFrrObs{ID: sc.ID, Ord: k + 1, Step: lk.Step, Seq: seq, Mode: "frr", Node: sc.Node, Created: lk.Created,
					Errs: lk.Errs, Refusals: lk.Refusals, RefusedOK: lk.RefusedOK}
				text := ""
				if last == nil {
					o.Errs = append(o.Errs, "no configuration reached the reload channel")
				} else {
					var err error
					if text, err = templateConfig(last); err != nil {
						o.Errs = append(o.Errs, "template: "+err.Error())
					}
				}
				sum := sha256.Sum256([]byte(text))
				o.Sha, o.Len = hex.EncodeToString(sum[:]), len(text)
				key := verifkit.FrrSameKey(text, lk.Sessions)
				if f, ok := first[key]; ok {
					o.Same = f // compression only: the driver copies sessions and program from that observation
				} else {
					first[key] = seq
					o.Sessions, o.Prog = lk.Sessions, vFrrTokenize(text)
					if withText {
						o.Text = text
					}
				}
				b.Add(o)
			})
			close(sm.reloadConfig)
			<-drain.done
		}
	})
	t.Logf("verif: %d scenarios, %d observations", len(scs), out.N)
}
