--------------------------- MODULE ElectionProof ---------------------------
(***************************************************************************)
(* C12, unbounded: the layer-2 election as "the rank-minimal eligible node"  *)
(* (Election.tla: Winner) is minimal-failover for every finite set of nodes *)
(* and every injective rank, not only for the 4-node instances TLC checks.  *)
(* Machine-checked with TLAPS (tlapm).  It is a statement about the         *)
(* abstract election; the binding to the Go code is the conformance check.  *)
(***************************************************************************)
EXTENDS Naturals, FiniteSets, FiniteSetTheorems, TLAPS

CONSTANTS Node, rank
ASSUME RankAssm == /\ rank \in [Node -> Nat]
                   /\ \A a, b \in Node : rank[a] = rank[b] => a = b

IsMin(n, E) == n \in E /\ \A m \in E : rank[n] <= rank[m]
Winner(E) == CHOOSE n \in E : IsMin(n, E)

(* a non-empty finite set of nodes has a rank-minimal element *)
LEMMA MinExists == \A E \in SUBSET Node : IsFiniteSet(E) /\ E # {} => \E n \in E : IsMin(n, E)
<1> DEFINE P(S) == S \in SUBSET Node /\ S # {} => \E n \in S : IsMin(n, S)
<1>1. P({})
  OBVIOUS
<1>2. ASSUME NEW T, NEW x, IsFiniteSet(T), P(T), x \notin T
      PROVE  P(T \cup {x})
  <2> SUFFICES ASSUME T \cup {x} \in SUBSET Node
               PROVE  \E n \in T \cup {x} : IsMin(n, T \cup {x})
    OBVIOUS
  <2>1. CASE T = {}
    <3>1. IsMin(x, T \cup {x})
      BY <2>1, RankAssm DEF IsMin
    <3> QED BY <3>1
  <2>2. CASE T # {}
    <3>1. PICK n \in T : IsMin(n, T)
      BY <1>2, <2>2
    <3>2. rank[n] \in Nat /\ rank[x] \in Nat
      BY <3>1, RankAssm
    <3>3. CASE rank[n] <= rank[x]
      <4>1. IsMin(n, T \cup {x})
        BY <3>1, <3>3 DEF IsMin
      <4> QED BY <4>1
    <3>4. CASE ~(rank[n] <= rank[x])
      <4>1. \A m \in T : rank[x] <= rank[m]
        <5> TAKE m \in T
        <5>1. rank[n] <= rank[m] /\ rank[m] \in Nat
          BY <3>1, RankAssm DEF IsMin
        <5> QED BY <5>1, <3>2, <3>4
      <4>2. IsMin(x, T \cup {x})
        BY <4>1, <3>2 DEF IsMin
      <4> QED BY <4>2
    <3> QED BY <3>3, <3>4
  <2> QED BY <2>1, <2>2
<1>3. \A S : IsFiniteSet(S) => P(S)
  <2> HIDE DEF P
  <2> QED BY <1>1, <1>2, FS_Induction, IsaM("blast")
<1> QED BY <1>3

LEMMA WinnerIsMin == \A E \in SUBSET Node : IsFiniteSet(E) /\ E # {} => IsMin(Winner(E), E)
  BY MinExists DEF Winner

LEMMA MinUnique == \A E \in SUBSET Node : \A a, b \in E : IsMin(a, E) /\ IsMin(b, E) => a = b
<1> TAKE E \in SUBSET Node
<1> TAKE a, b \in E
<1> HAVE IsMin(a, E) /\ IsMin(b, E)
<1>1. rank[a] <= rank[b] /\ rank[b] <= rank[a] /\ rank[a] \in Nat /\ rank[b] \in Nat
  BY RankAssm DEF IsMin
<1>2. rank[a] = rank[b]
  BY <1>1
<1> QED BY <1>2, RankAssm

(* removing nodes other than the winner does not move the address *)
THEOREM Remove ==
  \A E \in SUBSET Node, R \in SUBSET Node :
     (IsFiniteSet(E) /\ E # {} /\ Winner(E) \notin R) => Winner(E \ R) = Winner(E)
<1> TAKE E \in SUBSET Node, R \in SUBSET Node
<1> HAVE IsFiniteSet(E) /\ E # {} /\ Winner(E) \notin R
<1>1. IsMin(Winner(E), E)
  BY WinnerIsMin
<1>2. IsFiniteSet(E \ R) /\ E \ R # {} /\ E \ R \in SUBSET Node
  BY <1>1, FS_Subset DEF IsMin
<1>3. IsMin(Winner(E \ R), E \ R)
  BY <1>2, WinnerIsMin
<1>4. IsMin(Winner(E), E \ R)
  BY <1>1 DEF IsMin
<1> QED BY <1>2, <1>3, <1>4, MinUnique DEF IsMin

(* adding nodes leaves the winner unless one of the added nodes wins *)
THEOREM Add ==
  \A E \in SUBSET Node, A \in SUBSET Node :
     (IsFiniteSet(E) /\ IsFiniteSet(A) /\ E # {}) => (Winner(E \cup A) = Winner(E) \/ Winner(E \cup A) \in A)
<1> TAKE E \in SUBSET Node, A \in SUBSET Node
<1> HAVE IsFiniteSet(E) /\ IsFiniteSet(A) /\ E # {}
<1>1. IsFiniteSet(E \cup A) /\ E \cup A # {} /\ E \cup A \in SUBSET Node
  BY FS_Union
<1>2. IsMin(Winner(E \cup A), E \cup A)
  BY <1>1, WinnerIsMin
<1>3. CASE Winner(E \cup A) \in A
  BY <1>3
<1>4. CASE Winner(E \cup A) \notin A
  <2>1. Winner(E \cup A) \in E
    BY <1>2, <1>4 DEF IsMin
  <2>2. IsMin(Winner(E \cup A), E)
    BY <1>2, <2>1 DEF IsMin
  <2>3. IsMin(Winner(E), E)
    BY WinnerIsMin
  <2> QED BY <2>2, <2>3, MinUnique DEF IsMin
<1> QED BY <1>3, <1>4
=============================================================================
