------------------------------ MODULE Debounce ------------------------------
(***************************************************************************)
(* C19 - delivery of configurations to the reload action.                  *)
(*                                                                         *)
(* Two instances of the same state record, selected by the field `v`:      *)
(*                                                                         *)
(*  "frr"  internal/bgp/frr/config.go `debouncer`: a goroutine owning      *)
(*         `config` and `timerSet`; it receives reloadEvents from an       *)
(*         unbuffered channel (so a submitter is blocked exactly while the *)
(*         reload body runs) and calls body(config) when the timer fires;  *)
(*         an error re-arms the timer with the failure interval.           *)
(*  "k8s"  internal/k8s/controllers/frrk8s_config_controller.go:           *)
(*         UpdateConfig stores `desiredConfiguration` under the lock and   *)
(*         pulses `debouncer`, which after the interval emits an event     *)
(*         into the work queue; Reconcile (same lock) reads the desired    *)
(*         configuration, compares it with the cluster's object and writes *)
(*         it when different; an error is retried by the work queue.       *)
(*                                                                         *)
(* Fields of a state s                                                     *)
(*   config        frr: debouncer's `config`; k8s: desiredConfiguration    *)
(*   timerSet      the debounce timer (frr: or the retry timer) is armed   *)
(*   queued        k8s: a reconcile request sits in the work queue         *)
(*   busy,inflight the reload action is running, called with `inflight`    *)
(*   lastApplied   configuration of the last successful reload             *)
(*                 (k8s: what the cluster holds)                           *)
(*   lastSubmitted configuration of the latest submission that took effect *)
(*   failing       the latest attempt failed and neither another attempt   *)
(*                 nor a different configuration has come since            *)
(*   owed, ident   monitor of "a reload has a cause" (see BodyFails)       *)
(*                                                                         *)
(* Every operator is a pure function of records, so that DebounceMC (roles *)
(* A and B) and DebounceTrace (role C, on what the Go code did) share one  *)
(* definition of the transitions and of the property predicates.           *)
(***************************************************************************)
EXTENDS Integers, FiniteSets

NONE == 0      \* "no configuration" (nil)
OLD  == -1     \* a submission that carries no configuration: frr re-apply / k8s poke
DEL  == -3     \* k8s environment: the cluster's FRRConfiguration is deleted behind the reconciler,
EDIT == -4     \*   or overwritten with a foreign spec; the watch event follows (a poke)
FOREIGN == -9  \* what the cluster holds after EDIT
REJ  == -2     \* a submission the submitter's own validation rejects (session.Set whose
               \* createConfig fails): the call returns an error, nothing reaches the debouncer

S0(v) == [v |-> v, config |-> NONE, timerSet |-> FALSE, queued |-> FALSE,
          busy |-> FALSE, inflight |-> NONE,
          lastApplied |-> NONE, lastSubmitted |-> NONE, failing |-> FALSE,
          owed |-> FALSE, ident |-> FALSE]

----------------------------------------------------------------------------
(* Submissions.  One action per critical section: the channel hand-off     *)
(* (frr) / the locked section of UpdateConfig (k8s).                       *)

(* history part, the same for both instances *)
MonSubmit(s, c) ==
  IF c = s.lastSubmitted
  THEN [s EXCEPT !.ident = (s.ident \/ ~s.owed)]       \* identical resubmission
  ELSE [s EXCEPT !.lastSubmitted = c, !.owed = TRUE, !.failing = FALSE]

SubmitEff(s, c) ==
  LET m == MonSubmit(s, c) IN
  IF s.v = "frr"
  THEN (IF c = s.config THEN m                                     \* reflect.DeepEqual: ignored
        ELSE [m EXCEPT !.config = c, !.timerSet = TRUE])           \* arm once
  ELSE [m EXCEPT !.config = c, !.timerSet = TRUE]                  \* k8s: always pulses

(* frr: reloadEvent{useOld: true} (reloadValidator saw a failed reload)     *)
OldEff(s) ==
  IF s.config = NONE THEN s                                        \* "nil config": ignored
  ELSE [s EXCEPT !.timerSet = TRUE, !.owed = TRUE]

(* k8s: a reconcile request that no submission caused (watch event)         *)
PokeEff(s) == [s EXCEPT !.queued = TRUE]

NoConfEff(s) == IF s.v = "frr" THEN OldEff(s) ELSE PokeEff(s)

(* k8s: somebody else deletes / edits the object; the informer delivers the  *)
(* event.  The configuration the reconciler wrote is no longer in place, so  *)
(* a (repairing) reload has a cause.                                         *)
TamperEff(s, x) ==
  [s EXCEPT !.lastApplied = IF x = DEL THEN NONE ELSE FOREIGN,
            !.queued = TRUE,
            !.owed = (@ \/ s.lastSubmitted # NONE)]

(* the effect of whatever a submitter carries *)
AnyEff(s, x) == CASE x = REJ -> s
                  [] x = OLD -> NoConfEff(s)
                  [] x \in {DEL, EDIT} -> TamperEff(s, x)
                  [] OTHER -> SubmitEff(s, x)

(* a submitter is only ever held up by a running reload (the debouncer     *)
(* goroutine is inside body / Reconcile holds the lock)                    *)
EffectAllowed(s, x) == ~s.busy \/ x = REJ \/ (s.v = "k8s" /\ x = OLD)

----------------------------------------------------------------------------
(* Timer expiry and the reload action                                      *)

(* k8s: debouncer's timer fires: event into the (deduplicating) work queue *)
TickEnabled(s) == s.v = "k8s" /\ s.timerSet
TickEff(s) == [s EXCEPT !.timerSet = FALSE, !.queued = TRUE]

CanFire(s) == ~s.busy /\ (IF s.v = "frr" THEN s.timerSet ELSE s.queued)

(* k8s: Reconcile finds nothing to do (no desired configuration, or the     *)
(* cluster already holds it)                                               *)
FireIsNoop(s) == s.v = "k8s" /\ (s.config = NONE \/ s.config = s.lastApplied)
FireNoop(s) == [s EXCEPT !.queued = FALSE,
                          !.lastApplied = IF s.config = NONE THEN NONE ELSE @]  \* nil desired: the object is deleted

(* the reload action is entered with configuration c                       *)
BodyBegin(s, c) ==
  [s EXCEPT !.busy = TRUE, !.inflight = c, !.ident = FALSE, !.failing = FALSE,
            !.owed = IF c = s.lastSubmitted THEN FALSE ELSE @,   \* a stale reload serves no cause
            !.queued = IF s.v = "k8s" THEN FALSE ELSE @]

(* it returns                                                              *)
BodyEnd(s, ok) ==
  [s EXCEPT !.busy = FALSE,
            !.lastApplied = IF ok THEN s.inflight ELSE @,
            !.failing = ~ok,
            !.owed = (@ \/ ~ok),
            !.timerSet = IF s.v = "frr" THEN ~ok ELSE @,           \* retry timer
            !.queued = IF s.v = "k8s" THEN (@ \/ ~ok) ELSE @]      \* rate-limited requeue

----------------------------------------------------------------------------
(* The property predicates of C19 (evaluated by TLC on the design in       *)
(* DebounceMC and on recorded executions of the Go code in DebounceTrace)  *)

(* at the moment the reload action is entered with c, in state s:          *)
(*  NeverOlder        c is the most recently submitted configuration       *)
(*  Coalesce          the reload has a cause that no earlier reload served:*)
(*                    all submissions since the previous attempt share one *)
(*                    reload, so a second one without a new cause is a     *)
(*                    submission that was not coalesced                    *)
(*  IdenticalNoReload ... and identical resubmissions are not a cause      *)
BodyFails(s, c) ==
  (IF c = s.lastSubmitted THEN {} ELSE {"NeverOlder"}) \cup
  (IF s.owed THEN {} ELSE IF s.ident THEN {"IdenticalNoReload"} ELSE {"Coalesce"})

(* once failures have stopped and nothing moves any more:                  *)
(*  Delivered          the last successful reload carried the latest       *)
(*                     submitted configuration                             *)
(*  RetryWithoutSubmit no failed attempt was left without a later attempt  *)
(*                     (a different configuration submitted after the      *)
(*                     failure takes the duty over: Delivered)             *)
(*  NoBlockForever     no submitter is still inside its call               *)
QuietFails(s, open) ==
  (IF s.lastSubmitted # NONE /\ s.lastApplied # s.lastSubmitted THEN {"Delivered"} ELSE {}) \cup
  (IF s.failing THEN {"RetryWithoutSubmit"} ELSE {}) \cup
  (IF open # {} THEN {"NoBlockForever"} ELSE {})

(* nothing armed, nothing running *)
Idle(s) == ~s.timerSet /\ ~s.queued /\ ~s.busy

----------------------------------------------------------------------------
(* Conformance of an observed reload with the detailed model (drift only,  *)
(* never a verdict).  In a recorded execution the k8s timer expiry and the *)
(* reconciles that write nothing are not observed.                         *)
Explains(s, c) ==
  /\ ~s.busy
  /\ c = s.config
  /\ IF s.v = "frr" THEN s.timerSet
     ELSE c # s.lastApplied /\ (s.timerSet \/ s.queued)

QuietExplained(s) ==
  /\ ~s.busy
  /\ IF s.v = "frr" THEN ~s.timerSet ELSE (s.config = s.lastApplied)
=============================================================================
