//go:build verif

package controllers

// C19 harness for the frr-k8s variant: real FRRK8sReconciler.UpdateConfig, real debouncer(...)
// of frrk8s_config_controller.go (interval as parameter), real Reconcile, driven by a real
// controller-runtime controller (work queue, requeue on error) that watches the reconciler's
// channel exactly like SetupWithManager does.  What SetupWithManager adds on top - the informer
// on FRRConfiguration objects - needs an API server and is replaced by the script's "poke"
// (a reconcile request that no submission caused).  The API is the controller-runtime fake
// client; an interceptor in front of Create/Update is the "reload action": it logs the
// configuration being written, fails on script (nothing is written then) and can be held.

import (
	"context"
	"testing"

	"github.com/go-kit/log"
	"github.com/go-logr/logr"
	frrv1beta1 "github.com/metallb/frr-k8s/api/v1beta1"
	frrk8s "go.universe.tf/metallb/internal/bgp/frrk8s"
	"go.universe.tf/metallb/internal/logging"
	"go.universe.tf/metallb/internal/verifkit"
	apierrors "k8s.io/apimachinery/pkg/api/errors"
	metav1 "k8s.io/apimachinery/pkg/apis/meta/v1"
	"k8s.io/apimachinery/pkg/runtime"
	"k8s.io/client-go/util/workqueue"
	"k8s.io/utils/ptr"
	"sigs.k8s.io/controller-runtime/pkg/client"
	"sigs.k8s.io/controller-runtime/pkg/client/fake"
	"sigs.k8s.io/controller-runtime/pkg/client/interceptor"
	ctrlconfig "sigs.k8s.io/controller-runtime/pkg/config"
	"sigs.k8s.io/controller-runtime/pkg/controller"
	"sigs.k8s.io/controller-runtime/pkg/event"
	"sigs.k8s.io/controller-runtime/pkg/handler"
	logf "sigs.k8s.io/controller-runtime/pkg/log"
	"sigs.k8s.io/controller-runtime/pkg/manager"
	"sigs.k8s.io/controller-runtime/pkg/reconcile"
	"sigs.k8s.io/controller-runtime/pkg/source"
)

const (
	vfkNode = "verifnode"
	vfkNS   = "frr-k8s-system"
	vfkASN  = 64500
)

// vfkMgr answers the two questions controller.NewUnmanaged asks a manager.
type vfkMgr struct{ manager.Manager }

func (vfkMgr) GetControllerOptions() ctrlconfig.Controller { return ctrlconfig.Controller{} }
func (vfkMgr) GetLogger() logr.Logger                      { return logr.Discard() }

func vfkConfig(c int) frrv1beta1.FRRConfiguration {
	return frrv1beta1.FRRConfiguration{
		ObjectMeta: metav1.ObjectMeta{Name: frrk8s.ConfigName(vfkNode), Namespace: vfkNS},
		Spec: frrv1beta1.FRRConfigurationSpec{
			BGP: frrv1beta1.BGPConfig{Routers: []frrv1beta1.Router{{ASN: uint32(vfkASN + c), Prefixes: []string{"192.0.2.0/24"}}}},
		},
	}
}

func vfkAbs(cfg *frrv1beta1.FRRConfiguration) int {
	if len(cfg.Spec.BGP.Routers) == 0 {
		return 0
	}
	return int(cfg.Spec.BGP.Routers[0].ASN) - vfkASN
}

type vfkTarget struct {
	base   client.WithWatch
	r      *FRRK8sReconciler
	cancel context.CancelFunc
}

func (t *vfkTarget) Submit(c int) {
	if c < 0 {
		t.tamper(c)
		return
	}
	t.r.UpdateConfig(vfkConfig(c))
}

// tamper is the environment of the k8s instance: somebody else deletes (-3) or overwrites (-4) the
// node's FRRConfiguration through a client that bypasses the logged reload action, then the watch
// event arrives.  The reconciler's mutex is held while the object changes, so the change falls
// between two reconciles, never inside one.
func (t *vfkTarget) tamper(c int) {
	ctx := context.Background()
	proto := vfkConfig(0)
	t.r.Lock()
	if c == -3 {
		if err := t.base.Delete(ctx, &proto); err != nil && !apierrors.IsNotFound(err) {
			panic(err)
		}
	} else {
		foreign := frrv1beta1.FRRConfigurationSpec{
			BGP: frrv1beta1.BGPConfig{Routers: []frrv1beta1.Router{{ASN: 64999, Prefixes: []string{"198.51.100.0/24"}}}},
		}
		cur := frrv1beta1.FRRConfiguration{}
		err := t.base.Get(ctx, client.ObjectKey{Name: proto.Name, Namespace: proto.Namespace}, &cur)
		switch {
		case apierrors.IsNotFound(err):
			proto.Spec = foreign
			verifkit.Must(t.base.Create(ctx, &proto))
		case err != nil:
			panic(err)
		default:
			cur.Spec = foreign
			verifkit.Must(t.base.Update(ctx, &cur))
		}
	}
	t.r.Unlock()
	t.r.reconcileChan <- NewReloadEvent()
}
func (t *vfkTarget) NoConf()      { t.r.reconcileChan <- NewReloadEvent() }
func (t *vfkTarget) Close(clean bool) {
	if clean {
		close(t.r.configChangedChan)
	}
	t.cancel()
}

func vfkMake(env *verifkit.DebEnv) verifkit.DebTarget {
	scheme := runtime.NewScheme()
	verifkit.Must(frrv1beta1.AddToScheme(scheme))
	reload := func(obj client.Object) error {
		if cfg, ok := obj.(*frrv1beta1.FRRConfiguration); ok {
			return env.Body(vfkAbs(cfg))
		}
		return nil
	}
	base := fake.NewClientBuilder().WithScheme(scheme).Build()
	cl := interceptor.NewClient(base, interceptor.Funcs{
		Create: func(ctx context.Context, c client.WithWatch, obj client.Object, opts ...client.CreateOption) error {
			if err := reload(obj); err != nil {
				return err
			}
			return c.Create(ctx, obj, opts...)
		},
		Update: func(ctx context.Context, c client.WithWatch, obj client.Object, opts ...client.UpdateOption) error {
			if err := reload(obj); err != nil {
				return err
			}
			return c.Update(ctx, obj, opts...)
		},
	})

	r := &FRRK8sReconciler{
		Client:          cl,
		Logger:          log.NewNopLogger(),
		LogLevel:        logging.LevelInfo,
		Scheme:          scheme,
		NodeName:        vfkNode,
		FRRK8sNamespace: vfkNS,
	}
	// the three lines of SetupWithManager that do not need an API server
	r.configChangedChan = make(chan struct{})
	r.reconcileChan = make(chan event.GenericEvent)
	debouncer(r.configChangedChan, r.reconcileChan, env.ReloadInterval())

	c, err := controller.NewUnmanaged("verif-frrk8s", vfkMgr{}, controller.Options{
		Reconciler:         r,
		SkipNameValidation: ptr.To(true),
		// requeue after a failed Reconcile: the script's retry interval
		RateLimiter: workqueue.NewTypedItemExponentialFailureRateLimiter[reconcile.Request](env.RetryInterval(), env.RetryInterval()),
	})
	verifkit.Must(err)
	verifkit.Must(c.Watch(source.Channel(r.reconcileChan, &handler.EnqueueRequestForObject{})))
	ctx, cancel := context.WithCancel(context.Background())
	go func() { _ = c.Start(ctx) }()
	return &vfkTarget{base: base, r: r, cancel: cancel}
}

func TestVerifFrrk8sDebounce(t *testing.T) {
	logf.SetLogger(logr.Discard())
	var mine []verifkit.DebScript
	for _, sc := range verifkit.ReadDebScripts() {
		if sc.Target == "k8s" {
			mine = append(mine, sc)
		}
	}
	out := verifkit.NewObsWriter()
	defer out.Close()
	verifkit.DebRunAll(mine, out, 16, func(verifkit.DebScript) func(env *verifkit.DebEnv) verifkit.DebTarget { return vfkMake })
	t.Logf("verif: %d frr-k8s runs, %d lines", len(mine), out.N)
}
