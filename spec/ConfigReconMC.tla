---------------------------- MODULE ConfigReconMC ----------------------------
(***************************************************************************)
(* Roles A and B for the reconciler half of C18: a reconciler (PoolRecon-    *)
(* ciler or ConfigReconciler) that re-lists the cluster after every event   *)
(* and calls its handler iff the loaded value differs from the last applied *)
(* one.  One step = one event (an object appears / disappears / is          *)
(* modified, or nothing at all) followed by a reconciliation.  Every        *)
(* generated transition is printed (pre, act, post) and replayed on the     *)
(* real reconciler over the controller-runtime fake client.                 *)
(***************************************************************************)
EXTENDS ConfigLoad, Json

CONSTANTS Rec,          \* "pool" | "config" | "speaker" (ConfigReconciler with the native-mode validator and the real speaker as consumer)
          U,            \* universe of objects
          InitPresent,
          Pin,          \* harness-only: how many of pa, pb, pc are pinned to namespace ns1
          MaxOps

VARIABLES present, ver, cur, act, nops

vars == <<present, ver, cur, act, nops>>
View == <<present, ver, cur>>

StateRec(p, v, c) == [present |-> p, ver |-> v, cur |-> c]

Init == /\ present = InitPresent
        /\ ver = 0
        /\ cur = Value(Rec, InitPresent, 0)      \* the initial reconciliation has applied the first value
        /\ act = [op |-> "Init"]
        /\ nops = 0
        /\ PrintT(ToJson([init |-> StateRec(present, ver, cur), rec |-> Rec, pin |-> Pin]))

(* the native-mode validator refuses a snapshot with a BFD profile: nothing is applied *)
Rejected(p) == Rec = "speaker" /\ "bfd" \in p

Reconcile(p2, v2, a) ==
  LET new == Value(Rec, p2, v2) IN
  /\ present' = p2 /\ ver' = v2
  /\ cur' = IF Rejected(p2) THEN cur ELSE new
  /\ act' = [a EXCEPT !.called = (~Rejected(p2) /\ new # cur)]

Toggle(o) == Reconcile(IF o \in present THEN present \ {o} ELSE present \cup {o}, ver,
                       [op |-> IF o \in present THEN "del" ELSE "add", o |-> o, called |-> FALSE])
Modify(o) == /\ o \in present
             /\ Reconcile(present, IF o = "pa" THEN 1 - ver ELSE ver, [op |-> "mod", o |-> o, called |-> FALSE])
Nop == Reconcile(present, ver, [op |-> "nop", o |-> "", called |-> FALSE])

Next == /\ (MaxOps = 0 \/ nops < MaxOps)
        /\ nops' = IF MaxOps = 0 THEN 0 ELSE nops + 1
        /\ \/ \E o \in U : Toggle(o)
           \/ \E o \in U \cap {"pa", "n1"} : Modify(o)
           \/ Nop

Spec == Init /\ [][Next]_vars

Emit == PrintT(ToJson([pre |-> StateRec(present, ver, cur), act |-> act', post |-> StateRec(present', ver', cur'), n |-> nops]))

(* Role A *)
InvApplied == ~Rejected(present) => cur = Value(Rec, present, ver)
(* the handler runs iff the order-free value changed: in particular never   *)
(* for a secret, a foreign config map, an unreferenced community, a plain   *)
(* namespace, a node annotation, or nothing                                 *)
NoSpuriousReload ==
  [][act'.called <=> (~Rejected(present') /\ Value(Rec, present', ver') # cur)]_vars
UnrelatedNeverReloads ==
  [][(act'.op = "nop" \/ act'.o \in {"sec", "cm", "com", "nsx"} \/ (act'.op = "mod" /\ act'.o = "n1")) => ~act'.called]_vars
=============================================================================
