//go:build verif

package controllers

// Added to the package by the verification overlay only (speaker family): whether the
// configuration reconciler holds a rendered configuration.

func VerifHasConfig(r *ConfigReconciler) bool { return r.currentConfig != nil }
