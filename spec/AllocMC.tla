------------------------------- MODULE AllocMC -------------------------------
(***************************************************************************)
(* State machine over the allocator's public methods: role A (TLC checks    *)
(* the invariants of the design) and role B (every generated transition is  *)
(* printed as one JSON line (pre, act, post) for replay against the real    *)
(* allocator).  `act` is the stimulus of the step just taken; it is not     *)
(* part of the VIEW.                                                        *)
(***************************************************************************)
EXTENDS Alloc, Json

CONSTANTS Svcs,        \* service identities used
          LayoutSet,   \* layouts SetPools may install
          InitLayout,
          Reqs,        \* request records (Assign, Allocate)
          ReqsFP,      \* request records for AllocateFromPool / additional family
          ReqsAssign,  \* request records for Assign
          IpSeqs,      \* address sequences Assign may be called with
          MaxOps       \* bound on the length of a behaviour (0 = unbounded)

VARIABLES layout, al, act, nops

vars == <<layout, al, act, nops>>
View == <<layout, al>>

Init == /\ layout = InitLayout
        /\ al = [s \in Svcs |-> NULL]
        /\ act = [op |-> "Init"]
        /\ nops = 0
        /\ PrintT(ToJson([init |-> [layout |-> layout, al |-> al]]))

Tick == nops' = IF MaxOps = 0 THEN 0 ELSE nops + 1
Bound == MaxOps = 0 \/ nops < MaxOps

DoAssign(s, ips, r) ==
  LET ar == AssignRes(layout, al, s, ips, r) IN
  /\ al' = ar.al /\ layout' = layout
  /\ act' = [op |-> "Assign", s |-> s, ips |-> ips, r |-> r, ok |-> ar.ok]

DoUnassign(s) ==
  /\ al' = UnassignRes(al, s) /\ layout' = layout
  /\ act' = [op |-> "Unassign", s |-> s]

DoAllocate(s, r) ==
  \E x \in AllocateRes(layout, al, s, r) :
    /\ al' = x.al /\ layout' = layout
    /\ act' = [op |-> "Allocate", s |-> s, r |-> r, ok |-> x.ok, ips |-> x.ips]

DoAllocFromPool(s, pn, r) ==
  LET x == AllocFromPoolRes(layout, al, s, pn, r) IN
  /\ al' = x.al /\ layout' = layout
  /\ act' = [op |-> "AllocateFromPool", s |-> s, pool |-> pn, r |-> r, ok |-> x.ok, ips |-> x.ips]

DoAdditional(s, r) ==
  /\ al[s] # NULL /\ Len(al[s].ips) = 1
  /\ LET x == AllocAdditionalRes(layout, al, s, al[s].ips[1], al[s].pool, r) IN
     /\ al' = x.al /\ layout' = layout
     /\ act' = [op |-> "AllocateAdditional", s |-> s, existing |-> al[s].ips[1], pool |-> al[s].pool,
                r |-> r, ok |-> x.ok]

DoSetPools(L2) ==
  /\ L2 # layout
  /\ al' = SetPoolsRes(L2, al) /\ layout' = L2
  /\ act' = [op |-> "SetPools", layout |-> L2]

AllPoolNames == UNION {PoolNames(L) : L \in LayoutSet}

Next == /\ Bound /\ Tick
        /\ \/ \E s \in Svcs, ips \in IpSeqs, r \in ReqsAssign : DoAssign(s, ips, r)
           \/ \E s \in Svcs : DoUnassign(s)
           \/ \E s \in Svcs, r \in Reqs : DoAllocate(s, r)
           \/ \E s \in Svcs, pn \in AllPoolNames, r \in ReqsFP : DoAllocFromPool(s, pn, r)
           \/ \E s \in Svcs, r \in ReqsFP : DoAdditional(s, r)
           \/ \E L2 \in LayoutSet : DoSetPools(L2)

Spec == Init /\ [][Next]_vars

(* Role B: one JSON line per generated transition.                          *)
StateRec(l, a) == [layout |-> l, al |-> a]
Emit == PrintT(ToJson([pre |-> StateRec(layout, al), act |-> act', post |-> StateRec(layout', al'), n |-> nops]))

----------------------------------------------------------------------------
(* Role A: invariants of the design                                         *)
InvExclusive == Exclusive(al)
InvPlaced == \A t \in Svcs : PlacedMem(layout, al, t)
(* all holders of one address carry the same key (what makes the single     *)
(* sharingKeyForIP entry of the Go allocator well defined)                  *)
InvOneKey == \A a \in InUse(al) : Cardinality(DSharingKeys(al)[a]) = 1

----------------------------------------------------------------------------
(* Request catalogues                                                       *)
MkReq(ports, sk, bk, fam, pol, v6first) ==
  [ports |-> ports, sk |-> sk, bk |-> bk, fam |-> fam, pol |-> pol, v6first |-> v6first]

ReqsShare == { MkReq(p, sk, bk, "v4", "S", FALSE) :
                 p \in {{"tcp80"}, {"tcp443"}, {"tcp80", "tcp443"}},
                 sk \in {"", "k1", "k2"}, bk \in {"", "b1"} }
ReqsShareSmall == { MkReq(p, sk, bk, "v4", "S", FALSE) :
                 p \in {{"tcp80"}, {"tcp443"}},
                 sk \in {"", "k1"}, bk \in {"", "b1"} }
(* one sharing key, two backend keys, disjoint ports: what decides whether an address of a       *)
(* requested pool can be shared, and whether the scan goes on to the next free address           *)
ReqsKeyBackend == { MkReq(p, "k1", bk, "v4", "S", FALSE) : p \in {{"tcp80"}, {"tcp443"}}, bk \in {"", "b1"} }
ReqsFam == { MkReq({"tcp80"}, "", "", "v4", "S", FALSE),
             MkReq({"tcp80"}, "", "", "v6", "S", FALSE),
             MkReq({"tcp80"}, "", "", "dual", "R", FALSE),
             MkReq({"tcp80"}, "", "", "dual", "P", FALSE),
             MkReq({"tcp80"}, "", "", "dual", "P", TRUE),
             MkReq({"tcp80"}, "", "", "dual", "R", TRUE),
             MkReq({"tcp80"}, "k1", "", "dual", "P", FALSE),
             MkReq({"tcp443"}, "k1", "", "v4", "S", FALSE) }
ReqsFamAssign == { MkReq({"tcp80"}, "", "", "v4", "S", FALSE),
                   MkReq({"tcp80"}, "k1", "", "dual", "P", FALSE),
                   MkReq({"tcp443"}, "k1", "", "v4", "S", FALSE) }
ReqsPlain == { MkReq({"tcp80"}, "", "", "v4", "S", FALSE),
               MkReq({"tcp80"}, "k1", "", "v4", "S", FALSE),
               MkReq({"tcp443"}, "k1", "", "v4", "S", FALSE) }

ReqsCount == { MkReq({"tcp80"}, "k1", "", "v4", "S", FALSE),
               MkReq({"tcp443"}, "k1", "", "v4", "S", FALSE),
               MkReq({"tcp80"}, "", "", "v6", "S", FALSE),
               MkReq({"tcp80"}, "k1", "", "dual", "P", FALSE) }
Seqs_count == {<<0>>, <<1>>, <<3>>, <<100>>, <<1, 100>>, <<101, 0>>}

SeqsOver(A) == {<<a>> : a \in A} \cup {<<a, b>> : a \in A, b \in A}
Seqs_0_1     == {<<0>>, <<1>>, <<0, 1>>}
Seqs_0_1_100 == {<<0>>, <<1>>, <<100>>, <<0, 100>>, <<100, 1>>, <<0, 1>>, <<0, 100, 1>>}
Seqs_0_3_100_101 == {<<0>>, <<3>>, <<100>>, <<101>>, <<0, 100>>, <<3, 100>>, <<3, 101>>, <<100, 0>>}
Seqs_policy == {<<0>>, <<1>>, <<3>>, <<100>>, <<0, 100>>, <<100, 1>>, <<1, 100>>, <<3, 101>>}
Seqs_0to5 == {<<0>>, <<1>>, <<2>>, <<3>>, <<4>>, <<5>>}

=============================================================================
